"""C13 - the analysis depends on program structure, not on layout.

Monitor (metamorphic, on the real supp): a text T and a re-layout T' of it whose AST is identical
(`ast.dump(ast.parse(T)) == ast.dump(ast.parse(T'))`, checked on EVERY pair; a differing pair is a bug of
the re-printer: discarded and counted, never reported) are both taken through

  (1) supp.linter.lint(Project([root]), text, filename)      -> sequence of (code, message, position)
  (2) extract_scope(Source(text, filename), Project([root])) -> for every ast.Name in Load context:
        sorted(node.flow.names_at(np(node)))                    the visible names
        the alternatives of the read's own identifier          (MultiName.alt_names / the single name)

and the two answers must be the same through the *correspondence*: layout changes never add, remove or
reorder identifier tokens, so a position that is the start of an identifier token (NAME token that is not a
hard keyword and not the conversion letter after '!' in an f-string) is mapped to the ordinal of that
token among the identifier tokens of its text; the position of an `except ... as n` binding (it points at
the `except` keyword) to the ordinal of that keyword; an alternative to the ordinal of its `declared_at`
or to 'undefined' / 'builtin'.  The correspondence itself is validated on every pair: same identifier
strings in the same order and every i-th Load name at the same ordinal; when a printer has moved whole
subtrees (the stdlib unparser writes `f(k=b, *a)` as `f(*a, k=b)`) the tokens are aligned through the two
identical trees instead (tokens a node owns correspond in order, children by tree position; every Name / arg
node must land on its counterpart) and the second analysis is renumbered.  A pair that cannot be aligned is
discarded and counted.

A position that is not the start of an identifier token is described by (token text at that position,
number of identifier tokens before it).  Wrong positions as such are C11's business: when BOTH layouts
give a non-identifier position the row is counted (`c11_matter_*`) and not compared; C13 fires only on a
difference between the two analyses.

Domain: ASCII-only texts without carriage returns (columns of ast = bytes, of the tokenizer = characters);
a read whose own ast position is not an identifier-token start (interpreter quirk) is skipped and counted.
"""
import ast
import bisect
import collections
import io
import json
import keyword
import os
import random
import tokenize
import warnings

from vf import core, corpus, relayout

HARD_KEYWORDS = frozenset(keyword.kwlist)
_STRINGISH = (tokenize.STRING, getattr(tokenize, 'FSTRING_START', -1), getattr(tokenize, 'FSTRING_MIDDLE', -2),
              getattr(tokenize, 'FSTRING_END', -3))
MAX_STORED_PER_MECH = 4


# ------------------------------------------------------------------------------------------------
# the correspondence

class TokMap(object):
    """identifier-token ordinals of one text, plus what is needed to describe its layout"""

    def __init__(self, text):
        self.text = text
        self.id_pos = []        # positions of identifier tokens, in order
        self.id_str = []
        self.id_ord = {}
        self.exc_ord = {}       # position of an `except` keyword -> ordinal among them
        self.tok_at = {}        # position -> string of the token starting there
        self.ll_of = []         # per identifier token: index of its logical line
        self.lls = []           # logical lines: dict(first, last, semis, bs, brnl, comment, inline, deco, col)
        toks = relayout.tokens_of(text)
        prev = None
        depth = 0
        cur = None
        pending_colon = False
        last_sig_row = None
        for t in toks:
            tt = t.type
            if tt in (tokenize.INDENT, tokenize.DEDENT, tokenize.ENDMARKER):
                continue
            if tt == tokenize.NL:
                continue
            if tt == tokenize.COMMENT:
                if cur is not None and depth > 0:
                    cur['comment'] = True
                continue
            if tt == tokenize.NEWLINE:
                if cur is not None:
                    self.lls.append(cur)
                cur = None
                prev = None
                continue
            if cur is None:
                cur = {'first': t.start[0], 'last': t.end[0], 'semis': 0, 'bs': False, 'brnl': False,
                       'comment': False, 'inline': False, 'deco': t.string == '@', 'col': t.start[1],
                       'kw': t.string if t.string in HARD_KEYWORDS else None, 'colon0': False, 'mlstr': False}
                last_sig_row = t.start[0]
            else:
                if t.start[0] != last_sig_row:
                    if prev is not None and prev.type in _STRINGISH and tt in _STRINGISH:
                        cur['mlstr'] = True     # string literals concatenated over several lines
                    # the logical line continues on another physical line
                    if depth > 0:
                        cur['brnl'] = True
                    else:
                        cur['bs'] = True
                if cur['colon0'] and depth == 0:
                    cur['inline'] = True
            if t.start[0] != t.end[0] and tt in _STRINGISH:
                cur['mlstr'] = True             # a string token that runs over several lines
            last_sig_row = t.end[0]
            cur['last'] = t.end[0]
            self.tok_at[t.start] = t.string
            if tt == tokenize.OP:
                s = t.string
                if s in '([{':
                    depth += 1
                elif s in ')]}':
                    depth -= 1
                elif s == ';' and depth == 0:
                    cur['semis'] += 1
                elif s == ':' and depth == 0 and cur['kw'] in (
                        'if', 'elif', 'else', 'for', 'while', 'try', 'except', 'finally', 'with', 'def', 'class',
                        'async') and not cur.get('lambda_open'):
                    cur['colon0'] = True
            elif tt == tokenize.NAME:
                s = t.string
                if s == 'lambda' and depth == 0:
                    cur['lambda_open'] = cur.get('lambda_open', 0) + 1
                if s in HARD_KEYWORDS:
                    if s == 'except':
                        self.exc_ord[t.start] = len(self.exc_ord)
                elif not (prev is not None and prev.type == tokenize.OP and prev.string == '!'):
                    self.id_ord[t.start] = len(self.id_pos)
                    self.id_pos.append(t.start)
                    self.id_str.append(s)
                    self.ll_of.append(len(self.lls))
            if tt == tokenize.OP and t.string == ':' and depth == 0 and cur.get('lambda_open'):
                cur['lambda_open'] -= 1
            prev = t
        if cur is not None:
            self.lls.append(cur)

    def key(self, pos):
        pos = tuple(pos)
        o = self.id_ord.get(pos)
        if o is not None:
            return ('id', o)
        o = self.exc_ord.get(pos)
        if o is not None:
            return ('except', o)
        return ('other', self.tok_at.get(pos), bisect.bisect_left(self.id_pos, pos))

    # ordinals handed to line_features / ll / pos_of are those of the base text of the pair; when the identifier
    # tokens of this text are a permutation of them (from_a set by establish_correspondence) they are translated
    from_a = None

    def own(self, ordinal):
        if ordinal is not None and self.from_a is not None and 0 <= ordinal < len(self.from_a):
            return self.from_a[ordinal]
        return ordinal

    def ll(self, ordinal):
        return self.ll_of[self.own(ordinal)]

    def pos_of(self, ordinal):
        return self.id_pos[self.own(ordinal)]

    def line_features(self, ordinal):
        """layout facts about the logical line holding identifier token #ordinal"""
        ordinal = self.own(ordinal)
        if ordinal is None or ordinal >= len(self.ll_of) or self.ll_of[ordinal] >= len(self.lls):
            return None
        return self.lls[self.ll_of[ordinal]]


def collapse(k):
    return ('other',) if k[0] == 'other' else k


# ------------------------------------------------------------------------------------------------
# one analysis

class Analysis(object):
    pass


def analyse(text, filename, root, want_reads=True):
    from supp.project import Project
    from supp import linter
    from supp.nast import extract_scope
    from supp.util import Source, np
    from supp.name import MultiName, UndefinedName, RuntimeName

    a = Analysis()
    a.text = text
    tm = a.tm = TokMap(text)
    a.lint_exc = None
    a.rows = []
    try:
        with warnings.catch_warnings():
            warnings.simplefilter('ignore')
            rows = linter.lint(Project([root]), text, filename)
    except RecursionError:
        a.lint_exc = 'RecursionError'
        rows = []
    except Exception as e:
        a.lint_exc = type(e).__name__
        rows = []
    for r in rows:
        a.rows.append((r[0], r[1], tm.key((r[2], r[3])), (r[2], r[3])))

    a.scope_exc = None
    a.tree = None
    a.reads = []        # (ordinal|None, id, vis, alts, pos)
    if not want_reads:
        return a
    try:
        with warnings.catch_warnings():
            warnings.simplefilter('ignore')
            src = Source(text, filename)
            extract_scope(src, Project([root]))
            tree = a.tree = src.tree
    except RecursionError:
        a.scope_exc = 'RecursionError'
        return a
    except Exception as e:
        a.scope_exc = type(e).__name__
        return a
    intern = {}
    for n in ast.walk(tree):
        if type(n) is not ast.Name or type(n.ctx) is not ast.Load:
            continue
        pos = np(n)
        o = tm.id_ord.get(pos)
        flow = getattr(n, 'flow', None)
        if flow is None:
            a.reads.append((o, n.id, ('!noflow',), (), pos))
            continue
        try:
            names = flow.names_at(pos)
            vis = tuple(sorted(names))
            own = names.get(n.id)
        except RecursionError:
            a.reads.append((o, n.id, ('!raised', 'RecursionError'), (), pos))
            continue
        except Exception as e:
            a.reads.append((o, n.id, ('!raised', type(e).__name__), (), pos))
            continue
        vis = intern.setdefault(vis, vis)
        if own is None:
            alts = ()
        else:
            lst = own.alt_names if isinstance(own, MultiName) else [own]
            ks = []
            for x in lst:
                if isinstance(x, UndefinedName):
                    ks.append(('undefined',))
                elif isinstance(x, RuntimeName):
                    ks.append(('builtin',))
                else:
                    d = getattr(x, 'declared_at', None)
                    if d is None:
                        ks.append(('nodecl', type(x).__name__))
                    else:
                        ks.append(tm.key(d) + (type(x).__name__,))
            alts = tuple(sorted(ks, key=repr))
        a.reads.append((o, n.id, vis, alts, pos))
    return a


# ------------------------------------------------------------------------------------------------
# comparison of two analyses

def _pos_children(node):
    """nearest descendants that carry a source span, in AST field order (span-less nodes are transparent)"""
    out = []
    stack = list(ast.iter_child_nodes(node))[::-1]
    while stack:
        c = stack.pop()
        if getattr(c, 'end_lineno', None) is not None and getattr(c, 'lineno', None) is not None:
            out.append(c)
        else:
            stack.extend(list(ast.iter_child_nodes(c))[::-1])
    return out


def _ord_range(tm, node):
    start = (node.lineno, node.col_offset)
    for d in getattr(node, 'decorator_list', ()):
        # the span of a def / class starts at its keyword; its decorators belong to it all the same
        start = min(start, (d.lineno, d.col_offset))
    return (bisect.bisect_left(tm.id_pos, start),
            bisect.bisect_left(tm.id_pos, (node.end_lineno, node.end_col_offset)))


def _own(rng, child_ranges):
    """ordinals of rng = (lo, hi) that lie in none of the child ranges"""
    out = []
    cur = rng[0]
    for lo, hi in sorted(child_ranges):
        if hi <= cur or lo >= rng[1]:
            continue
        out.extend(range(cur, min(lo, rng[1])))
        cur = max(cur, hi)
    out.extend(range(cur, rng[1]))
    return out


def token_permutation(A, B):
    """identifier tokens of B -> identifier tokens of A through the (identical) trees: the tokens a node owns
    (those in its span and in no child's span) correspond in order, children correspond by position in the
    tree.  This holds for any printer that moves whole subtrees (the stdlib unparser writes `f(k=b, *a)` as
    `f(*a, k=b)`).  -> list to_a (to_a[ordinal in B] = ordinal in A) or None when the texts do not align."""
    try:
        ta = A.tree or relayout.parse_quiet(A.text)
        tb = B.tree or relayout.parse_quiet(B.text)
    except (SyntaxError, ValueError, RecursionError):
        return None
    na, nb = len(A.tm.id_pos), len(B.tm.id_pos)
    if na != nb:
        return None
    to_a = [None] * nb
    stack = [(ta, tb, (0, na), (0, nb))]
    while stack:
        x, y, rx, ry = stack.pop()
        cx, cy = _pos_children(x), _pos_children(y)
        if len(cx) != len(cy):
            return None
        rcx = [_ord_range(A.tm, c) for c in cx]
        rcy = [_ord_range(B.tm, c) for c in cy]
        ox, oy = _own(rx, rcx), _own(ry, rcy)
        if len(ox) != len(oy):
            return None
        for i, j in zip(ox, oy):
            if A.tm.id_str[i] != B.tm.id_str[j] or to_a[j] is not None:
                return None
            to_a[j] = i
        for c, d, r1, r2 in zip(cx, cy, rcx, rcy):
            if type(c) is not type(d):
                return None
            stack.append((c, d, r1, r2))
    if any(v is None for v in to_a) or len(set(to_a)) != nb:
        return None
    # every Name / arg node must map onto its counterpart
    for c, d in zip(ast.walk(ta), ast.walk(tb)):
        if isinstance(c, (ast.Name, ast.arg)):
            i = A.tm.id_ord.get((c.lineno, c.col_offset))
            j = B.tm.id_ord.get((d.lineno, d.col_offset))
            if i is not None and j is not None and to_a[j] != i:
                return None
    return to_a


def renumber(B, to_a):
    """express everything the analysis B says in the ordinals of the base text"""
    def tr(k):
        if k and k[0] == 'id':
            return (k[0], to_a[k[1]]) + tuple(k[2:])
        return k
    B.rows = [(r[0], r[1], tr(r[2]), r[3]) for r in B.rows]
    B.reads = [(to_a[r[0]] if r[0] is not None else None, r[1], r[2],
                tuple(sorted((tr(k) for k in r[3]), key=repr)), r[4]) for r in B.reads]
    from_a = [0] * len(to_a)
    for j, i in enumerate(to_a):
        from_a[i] = j
    B.tm.to_a = to_a
    B.tm.from_a = from_a


def _reads_aligned(A, B):
    if A.scope_exc is None and B.scope_exc is None:
        if len(A.reads) != len(B.reads):
            return 'read-count'
        for ra, rb in zip(A.reads, B.reads):
            if ra[1] != rb[1]:
                return 'read-order'
            if ra[0] is not None and rb[0] is not None and ra[0] != rb[0]:
                return 'read-ordinal'
    return None


def correspondence_ok(A, B, count=None):
    """None when the identifier tokens of both texts correspond (same strings in the same order and every i-th read
    at the same ordinal; or, failing that, alignable through the trees - B is then renumbered), else the reason"""
    if len(A.tm.exc_ord) != len(B.tm.exc_ord):
        return 'except-keyword-count'
    if A.tm.id_str == B.tm.id_str and _reads_aligned(A, B) is None:
        return None
    if sorted(A.tm.id_str) != sorted(B.tm.id_str):
        return 'identifier-token-multiset'
    to_a = token_permutation(A, B)
    if to_a is None:
        return 'identifier-tokens-not-alignable-through-the-tree'
    renumber(B, to_a)
    if count is not None:
        count('pairs_with_reordered_identifier_tokens(aligned through the tree)')
    return _reads_aligned(A, B)


def compare(A, B, count):
    """-> list of differences: dict(kind, ...) ; count(name, n) records what was compared"""
    diffs = []
    # (1) lint
    if A.lint_exc != B.lint_exc:
        diffs.append({'kind': 'lint-exception', 'a': A.lint_exc, 'b': B.lint_exc})
    elif A.lint_exc is None:
        sa = [(r[0], r[1]) for r in A.rows]
        sb = [(r[0], r[1]) for r in B.rows]
        count('lint_rows_compared', len(sa))
        if sa != sb:
            ca = collections.Counter((r[0], r[1], collapse(r[2])) for r in A.rows)
            cb = collections.Counter((r[0], r[1], collapse(r[2])) for r in B.rows)
            only_a = sorted((ca - cb).elements(), key=repr)
            only_b = sorted((cb - ca).elements(), key=repr)
            if not only_a and not only_b:
                diffs.append({'kind': 'lint-order', 'a': [list(x) for x in sa[:0]], 'b': []})
            else:
                diffs.append({'kind': 'lint-rows', 'only_a': [list(x) for x in only_a[:6]],
                              'only_b': [list(x) for x in only_b[:6]], 'n_a': len(only_a), 'n_b': len(only_b)})
        else:
            for ra, rb in zip(A.rows, B.rows):
                ka, kb = ra[2], rb[2]
                if ka[0] == 'other' and kb[0] == 'other':
                    count('c11_matter_lint_position_not_identifier_in_both')
                    continue
                count('lint_positions_compared')
                if ka != kb:
                    diffs.append({'kind': 'lint-position', 'code': ra[0], 'msg': ra[1], 'a': list(ka), 'b': list(kb),
                                  'pos_a': list(ra[3]), 'pos_b': list(rb[3])})
    # (2) reads
    if A.scope_exc != B.scope_exc:
        diffs.append({'kind': 'scope-exception', 'a': A.scope_exc, 'b': B.scope_exc})
    elif A.scope_exc is None:
        for i, (ra, rb) in enumerate(zip(A.reads, B.reads)):
            if ra[0] is None or rb[0] is None:
                count('reads_skipped_position_not_identifier_token')
                continue
            count('reads_compared')
            if ra[2] is not rb[2] and ra[2] != rb[2]:
                sa, sb = set(ra[2]), set(rb[2])
                diffs.append({'kind': 'visible', 'read': ra[0], 'id': ra[1], 'only_a': sorted(sa - sb)[:8],
                              'only_b': sorted(sb - sa)[:8], 'pos_a': list(ra[4]), 'pos_b': list(rb[4])})
                continue
            if ra[3] != rb[3]:
                ca = tuple(sorted((collapse(k[:-1]) + k[-1:] if k[0] == 'other' else k for k in ra[3]), key=repr))
                cb = tuple(sorted((collapse(k[:-1]) + k[-1:] if k[0] == 'other' else k for k in rb[3]), key=repr))
                if ca == cb:
                    count('c11_matter_alternative_position_not_identifier_in_both')
                    continue
                diffs.append({'kind': 'alternatives', 'read': ra[0], 'id': ra[1], 'a': [list(k) for k in ra[3]],
                              'b': [list(k) for k in rb[3]], 'pos_a': list(ra[4]), 'pos_b': list(rb[4])})
            elif len(ra[3]) > 1:
                count('reads_with_several_alternatives_compared')
    return diffs


# ------------------------------------------------------------------------------------------------
# labelling: which layout feature differs at the diverging read / binding

class Roles(object):
    """what the identifier token at a position is, from CPython's ast of the text"""

    def __init__(self, text, tm):
        self.role = {}          # ordinal -> role
        self.in_deco = set()    # ordinals inside a decorator expression
        self.first_body_deco = set()   # ... of a def/class that is the first statement of a for/with/except/def block
        self.tree = tree = relayout.parse_quiet(text)
        self.tm = tm

        def put(pos, role):
            o = tm.id_ord.get(tuple(pos))
            if o is not None:
                self.role.setdefault(o, role)

        def name_after(pos, ident, role):
            # first identifier token `ident` at or after pos
            i = bisect.bisect_left(tm.id_pos, tuple(pos))
            for j in range(i, min(i + 40, len(tm.id_pos))):
                if tm.id_str[j] == ident:
                    self.role.setdefault(j, role)
                    return

        def targets(t, role):
            for n in ast.walk(t):
                if isinstance(n, ast.Name):
                    put((n.lineno, n.col_offset), role)

        for node in ast.walk(tree):
            if isinstance(node, (ast.For, ast.AsyncFor, ast.With, ast.AsyncWith, ast.ExceptHandler, ast.FunctionDef,
                                 ast.AsyncFunctionDef)) and node.body:
                for d in getattr(node.body[0], 'decorator_list', []):
                    for n in ast.walk(d):
                        if isinstance(n, ast.Name):
                            o = tm.id_ord.get((n.lineno, n.col_offset))
                            if o is not None:
                                self.first_body_deco.add(o)
            if isinstance(node, (ast.FunctionDef, ast.AsyncFunctionDef, ast.ClassDef)):
                name_after((node.lineno, node.col_offset), node.name,
                           'class-name' if isinstance(node, ast.ClassDef) else 'def-name')
                for d in node.decorator_list:
                    for n in ast.walk(d):
                        if isinstance(n, ast.Name):
                            o = tm.id_ord.get((n.lineno, n.col_offset))
                            if o is not None:
                                self.in_deco.add(o)
            elif isinstance(node, ast.arg):
                put((node.lineno, node.col_offset), 'param')
            elif isinstance(node, ast.Assign):
                for t in node.targets:
                    targets(t, 'assign')
            elif isinstance(node, ast.AugAssign):
                targets(node.target, 'augassign')
            elif isinstance(node, ast.AnnAssign):
                targets(node.target, 'annassign')
            elif isinstance(node, (ast.For, ast.AsyncFor)):
                targets(node.target, 'for-target')
            elif isinstance(node, (ast.With, ast.AsyncWith)):
                for it in node.items:
                    if it.optional_vars is not None:
                        targets(it.optional_vars, 'with-target')
            elif isinstance(node, ast.ExceptHandler):
                if node.name:
                    start = (node.type.end_lineno, node.type.end_col_offset) if node.type else (node.lineno, node.col_offset)
                    name_after(start, node.name, 'except-name')
            elif isinstance(node, ast.comprehension):
                targets(node.target, 'comp-target')
            elif isinstance(node, ast.NamedExpr):
                targets(node.target, 'walrus')
            elif isinstance(node, (ast.Import, ast.ImportFrom)):
                for al in node.names:
                    nm = al.asname or al.name.partition('.')[0]
                    if nm != '*':
                        if al.asname:
                            put((al.end_lineno, al.end_col_offset - len(al.asname)), 'import')
                        else:
                            name_after((al.lineno, al.col_offset), nm, 'import')
        # physical rows of every top-level statement (decorator lines included)
        firsts = [ll['first'] for ll in tm.lls]
        self.top_rows = []
        for st in tree.body:
            row = st.lineno
            decos = getattr(st, 'decorator_list', None)
            if decos:
                i = bisect.bisect_right(firsts, st.lineno) - 1
                n = 0
                while i - 1 >= 0 and tm.lls[i - 1]['deco'] and n < len(decos):
                    i -= 1
                    n += 1
                row = min(row, tm.lls[i]['first']) if i >= 0 else row
            self.top_rows.append((max(1, row), st.end_lineno))

    def top_index(self, ordinal):
        pos = self.tm.pos_of(ordinal)
        best = None
        for i, st in enumerate(self.tree.body):
            lo = (self.top_rows[i][0], 0)
            hi = (st.end_lineno, st.end_col_offset)
            if lo <= pos < hi:
                best = i
        return best


def feature_diff(fa, fb):
    """names of the layout features in which two logical lines differ"""
    out = []
    if fa is None or fb is None:
        return out
    if fa['inline'] != fb['inline']:
        out.append('one-line-compound')
    if fa['semis'] != fb['semis']:
        out.append('semicolon-joined')
    if fa['brnl'] != fb['brnl']:
        out.append('bracket-newline')
    if fa['bs'] != fb['bs']:
        out.append('backslash-continuation')
    if fa['comment'] != fb['comment']:
        out.append('comment-in-brackets')
    return out


PRIORITY = ['decorator-line', 'one-line-compound', 'semicolon-joined', 'bracket-newline', 'backslash-continuation',
            'comment-in-brackets', 'comment-contains-name', 'columns-only']


def binding_ordinals(diff):
    """ordinals of the bindings the two analyses disagree about (from alternatives), else []"""
    out = []
    if diff['kind'] == 'alternatives':
        sa = {tuple(k) for k in diff['a']}
        sb = {tuple(k) for k in diff['b']}
        for k in sorted(sa ^ sb, key=repr):
            if k[0] == 'id':
                out.append(k[1])
        if not out:
            # only the undefined / builtin marker differs: the bindings concerned are the common ones
            out = [k[1] for k in sorted(sa | sb, key=repr) if k[0] == 'id']
    return out


def nearest_binding(R, tm, names, near):
    """ordinal of the binding token (an identifier with a binding role) of one of `names` nearest to token #near"""
    best = None
    for o in R.role:
        if tm.id_str[o] in names:
            if best is None or abs(o - near) < abs(best - near) or (abs(o - near) == abs(best - near) and o < best):
                best = o
    return best


def spans_lines_differently(A, B, o):
    fa, fb = A.tm.line_features(o), B.tm.line_features(o)
    return bool(fa and fb and ((fa['first'] != fa['last']) != (fb['first'] != fb['last'])))


def label(diff, A, B, ra=None, rb=None):
    """-> (mechanism label '<layout feature>:<binding kind>-<what differs>', details).
    The layout feature is the first (in PRIORITY order) in which the two texts differ on the logical lines of
    the diverging read and of the binding concerned, or in whether the two share a logical line."""
    kind = diff['kind']
    ra = ra or Roles(A.text, A.tm)
    rb = rb or Roles(B.text, B.tm)
    if kind in ('lint-exception', 'scope-exception'):
        return 'exception-differs:%s-vs-%s' % (diff['a'], diff['b']), {}
    feats = []
    bind_role = None
    read_o = diff.get('read')
    bind_os = []
    names = set()
    what = kind
    if kind == 'lint-position':
        ka, kb = tuple(diff['a']), tuple(diff['b'])
        for k, X in ((ka, A), (kb, B)):
            if k[0] == 'other':
                tok = k[1]
                pos = tuple(diff['pos_a'] if X is A else diff['pos_b'])
                lines = X.text.split('\n')
                line = lines[pos[0] - 1] if 0 < pos[0] <= len(lines) else ''
                cpos = line.find('#')
                if tok is None and 0 <= cpos < pos[1]:
                    feats.append('comment-contains-name')
                elif tok is None:
                    feats.append('points-inside-token')
                else:
                    feats.append('points-at-other-token')
            elif k[0] == 'id':
                bind_os.append(k[1])
        if not feats:
            feats.append('points-at-other-identifier')
        what = 'position'
        if not bind_os:
            bind_role = 'import' if diff['code'] == 'W02' else 'binding'
    elif kind == 'visible':
        names = set(diff['only_a']) | set(diff['only_b'])
        what = 'visibility'
    elif kind == 'alternatives':
        bind_os = binding_ordinals(diff)
        sa = {tuple(k) for k in diff['a'] if k[0] == 'id'}
        sb = {tuple(k) for k in diff['b'] if k[0] == 'id'}
        what = 'visibility' if sa == sb else 'alternatives'
    elif kind in ('lint-rows', 'lint-order'):
        rows = diff.get('only_a', []) + diff.get('only_b', [])
        reads = [x for x in rows if x[0] in ('E02', 'E42') and x[2] and x[2][0] == 'id']
        binds = [x for x in rows if x[0] in ('W01', 'W02') and x[2] and x[2][0] == 'id']
        if reads:
            read_o = reads[0][2][1]
            names = {reads[0][1].rpartition(': ')[2]}
            what = 'visibility'
        elif binds:
            bind_os = [binds[0][2][1]]
            what = 'unused-report'
        else:
            what = 'lint-' + ('+'.join(sorted({x[0] for x in rows})) or 'order')
    if names and read_o is not None:
        o = nearest_binding(ra, A.tm, names, read_o)
        if o is not None:
            bind_os.append(o)
    if read_o is not None and read_o in ra.in_deco and spans_lines_differently(A, B, read_o):
        feats.append('decorator-line')
    for o in bind_os:
        bind_role = bind_role or ra.role.get(o)
        if o in ra.in_deco and spans_lines_differently(A, B, o):
            feats.append('decorator-line')
        if read_o is not None:
            same_a = A.tm.ll(o) == A.tm.ll(read_o)
            same_b = B.tm.ll(o) == B.tm.ll(read_o)
            if same_a != same_b:
                f = (A if same_a else B).tm.line_features(read_o)
                feats.append('one-line-compound' if f and f['inline'] else 'semicolon-joined')
        feats += feature_diff(A.tm.line_features(o), B.tm.line_features(o))
    if read_o is not None:
        feats += feature_diff(A.tm.line_features(read_o), B.tm.line_features(read_o))
    seen = []
    for f in feats:
        if f not in seen:
            seen.append(f)
    seen.sort(key=lambda f: PRIORITY.index(f) if f in PRIORITY else -1)
    feat = seen[0] if seen else 'layout-elsewhere'
    if feat in ('one-line-compound', 'semicolon-joined', 'bracket-newline', 'backslash-continuation'):
        # the lines concerned hold a string literal that runs over several physical lines
        for o in list(bind_os) + ([read_o] if read_o is not None else []):
            fa, fb = A.tm.line_features(o), B.tm.line_features(o)
            if (fa and fa.get('mlstr')) or (fb and fb.get('mlstr')):
                feat += '+multi-line-string'
                break
    details_role = bind_role
    mech = '%s:%s-%s' % (feat, bind_role or 'unknown-binding', what)
    if feat == 'decorator-line' and read_o is not None and read_o in ra.first_body_deco:
        # one mechanism: the read is in a decorator of the first statement of a for/with/except/def block, whose
        # entry bindings (target, parameters, except name) all become visible at "the first statement" of it
        mech = 'decorator-line:block-entry-binding-visibility'
    return mech, {'features_differing': seen, 'binding_ordinals': bind_os[:4], 'read_ordinal': read_o,
                  'binding_role': details_role}


# ------------------------------------------------------------------------------------------------
# reduction of a failing pair to the top-level statements involved

def reduce_pair(A, B, diff, details, filename, root):
    """-> (text_a, text_b) of the smallest run of top-level statements that still shows a difference, or None"""
    try:
        ra, rb = Roles(A.text, A.tm), Roles(B.text, B.tm)
        ords = [o for o in [details.get('read_ordinal')] + list(details.get('binding_ordinals') or []) if o is not None]
        if diff['kind'] == 'lint-position':
            ords += [k[1] for k in (diff['a'], diff['b']) if k[0] == 'id']
        if diff['kind'] == 'lint-rows':
            ords += [x[2][1] for x in diff['only_a'] + diff['only_b'] if x[2] and x[2][0] == 'id'][:3]
        if not ords or len(ra.tree.body) != len(rb.tree.body):
            return None
        idx = [ra.top_index(o) for o in ords]
        if any(i is None for i in idx):
            return None
        lo, hi = min(idx), max(idx)
        n = len(ra.tree.body)
        la, lb = A.text.split('\n'), B.text.split('\n')
        for widen in range(0, 5):
            lo2, hi2 = max(0, lo - widen), hi
            # statements sharing a physical line with the range must come along
            changed = True
            while changed:
                changed = False
                for R in (ra, rb):
                    if lo2 > 0 and R.top_rows[lo2 - 1][1] >= R.top_rows[lo2][0]:
                        lo2 -= 1
                        changed = True
                    if hi2 < n - 1 and R.top_rows[hi2 + 1][0] <= R.top_rows[hi2][1]:
                        hi2 += 1
                        changed = True
            ta = '\n'.join(la[ra.top_rows[lo2][0] - 1:ra.top_rows[hi2][1]]) + '\n'
            tb = '\n'.join(lb[rb.top_rows[lo2][0] - 1:rb.top_rows[hi2][1]]) + '\n'
            if len(ta) + len(tb) > 60000:
                return None
            if not relayout.same_ast(ta, tb):
                continue
            a2, b2 = analyse(ta, filename, root), analyse(tb, filename, root)
            if correspondence_ok(a2, b2):
                continue
            d2 = compare(a2, b2, lambda *x: None)
            if any(d['kind'] == diff['kind'] for d in d2):
                return ta, tb
        return None
    except Exception:
        return None


# ------------------------------------------------------------------------------------------------
# the monitor for one text

class Monitor(object):
    def __init__(self, part, cap=MAX_STORED_PER_MECH):
        self.p = part
        self.stored = collections.Counter()
        self.cap = cap

    def count(self, name, n=1):
        self.p.count(name, n)

    def usable(self, text):
        if text is None:
            self.p.count('skipped:unreadable')
            return False
        if not text.isascii():
            self.p.count('skipped:non-ascii')
            return False
        if '\r' in text:
            self.p.count('skipped:carriage-return')
            return False
        return True

    def report(self, diffs, A, B, meta, filename, root):
        ra = rb = None
        seen = set()
        for d in diffs:
            if len(seen) >= 12:
                self.p.count('differences_not_labelled(over 12 per pair)')
                continue
            try:
                if ra is None:
                    ra, rb = Roles(A.text, A.tm), Roles(B.text, B.tm)
                mech, details = label(d, A, B, ra, rb)
            except Exception as e:
                mech, details = 'other:%s' % d['kind'], {'label_error': repr(e)[:200]}
            self.p.count('differences')
            self.p.hist('difference_mechanisms', mech)
            if mech in seen:
                continue
            seen.add(mech)
            if self.stored[mech] >= self.cap:
                self.p.count('instances_not_stored:' + mech)
                continue
            self.stored[mech] += 1
            red = reduce_pair(A, B, d, details, filename, root)
            case = dict(meta)
            case['diff'] = d
            case['details'] = details
            if red is not None:
                case['text'], case['text2'] = red
                case['reduced'] = True
                self.p.count('failing_pairs_reduced_to_top_level_statements')
            else:
                case['text'], case['text2'] = A.text, B.text
                case['reduced'] = False
            what = describe(d, mech, case)
            self.p.violation(mech, what, case)

    def pair(self, A, text2, meta, filename, root, key, applied, force_nontrivial=False):
        """compare the analysis A of the base text with the analysis of text2; -> True if compared"""
        p = self.p
        p.count('pairs_generated')
        if text2 == A.text:
            p.count('pairs_identical_text')
            return False
        if not text2.isascii() or '\r' in text2:
            p.count('pairs_discarded:re-layout-outside-domain(non-ascii)')
            p.hist('discarded_by_base', meta.get('base'))
            return False
        if not relayout.same_ast(A.text, text2):
            p.count('pairs_discarded:ast-differs(generator bug)')
            p.hist('discarded_by_base', meta.get('base'))
            return False
        p.count('pairs_ast_identical')
        B = analyse(text2, filename, root)
        why = correspondence_ok(A, B, self.count)
        if why:
            p.count('pairs_discarded:correspondence:' + why)
            p.hist('discarded_correspondence_by_kind_and_base', '%s/%s' % (meta.get('kind'), meta.get('base')))
            return False
        diffs = compare(A, B, self.count)
        p.count('pairs_compared')
        for f, n in applied.items():
            p.hist('layout_features_applied', f, n)
        p.hist('layout_base', meta.get('base'))
        nfeat = sum(1 for f, n in applied.items() if n) if meta.get('base') != 'ast.unparse' else 2
        nontrivial = force_nontrivial or (nfeat >= 2 and len(A.reads) >= 5 and len(A.rows) >= 1)
        p.case(key, nontrivial=nontrivial)
        if diffs:
            p.count('pairs_with_differences')
            self.report(diffs, A, B, meta, filename, root)
        return True

    def text(self, text, filename, root, meta, key, k, rng, base=None):
        """one text against its ast.unparse normal form and k random re-layouts"""
        p = self.p
        if not self.usable(text):
            return
        try:
            tree = relayout.parse_quiet(text)
        except (SyntaxError, ValueError, RecursionError):
            p.count('skipped:unparsable')
            return
        p.count('texts')
        A = analyse(text, filename, root)
        if A.lint_exc:
            p.hist('lint_exception_on_original(C08 matter)', A.lint_exc)
        if A.scope_exc:
            p.hist('scope_exception_on_original(C08 matter)', A.scope_exc)
        for r in A.rows:
            p.hist('lint_codes', r[0])
        for r in A.reads:
            if len(r[3]) > 1:
                p.count('reads_with_several_alternatives')
        # (a) normal form
        try:
            with warnings.catch_warnings():
                warnings.simplefilter('ignore')
                nf = ast.unparse(tree) + '\n'
        except (RecursionError, ValueError) as e:
            p.count('normal_form_failed:' + type(e).__name__)
            nf = None
        if nf is not None:
            m = dict(meta, base='ast.unparse', layout='normal-form')
            self.pair(A, nf, m, filename, root, '%s#nf' % key, {})
        # (b) random re-layouts
        for j in range(k):
            r = random.Random('%s:%s' % (rng, j))
            try:
                t2, applied, used_base = relayout.relayout(text, tree, r, base=base)
            except (RecursionError, ValueError, tokenize.TokenError, SyntaxError, IndentationError) as e:
                p.count('relayout_failed:' + type(e).__name__)
                continue
            m = dict(meta, base=used_base, layout=j, layout_rng='%s:%s' % (rng, j))
            self.pair(A, t2, m, filename, root, '%s#%d' % (key, j), applied)


def describe(d, mech, case):
    k = d['kind']
    src = case.get('path') or ('generated program #%s' % case.get('index'))
    tail = ' [%s vs %s layout %s%s]' % (src, case.get('base'), case.get('layout'), ', reduced' if case.get('reduced') else '')
    if k == 'visible':
        return 'read #%s %r sees %s only in the original and %s only in the re-layout%s' % (
            d['read'], d['id'], d['only_a'], d['only_b'], tail)
    if k == 'alternatives':
        return 'read #%s %r resolves to %s in the original, to %s in the re-layout%s' % (d['read'], d['id'], d['a'], d['b'], tail)
    if k == 'lint-rows':
        return 'lint rows differ: only original %s, only re-layout %s%s' % (d['only_a'][:3], d['only_b'][:3], tail)
    if k == 'lint-position':
        return 'lint row %s %r at %s in the original, at %s in the re-layout%s' % (d['code'], d['msg'], d['a'], d['b'], tail)
    return '%s: %s vs %s%s' % (k, d.get('a'), d.get('b'), tail)


# ------------------------------------------------------------------------------------------------
# workers

def root_of(path):
    std = corpus.stdlib_root()
    if path.startswith(std + os.sep):
        return std, 'stdlib'
    return core.REPO, 'repo'


def work_files(arg):
    seed, files, k = arg
    part = core.Part()
    mon = Monitor(part)
    for path in files:
        text = corpus.read_text(path)
        root, kind = root_of(path)
        rel = os.path.relpath(path, root)
        meta = {'kind': 'file', 'path': path, 'root_kind': kind}
        mon.text(text, path, root, meta, '%s:%s' % (kind, rel), k, '%s:C13:file:%s' % (seed, rel))
    return part.dump()


def work_gen(arg):
    seed, start, n, k = arg
    from vf import gen_prog, dynexec
    part = core.Part()
    mon = Monitor(part)
    proj = dynexec.Project()
    try:
        for i in range(start, start + n):
            rng = random.Random('%s:C13:gen:%s' % (seed, i))
            size = rng.choice(['small', 'medium', 'medium', 'large'])
            mode = rng.choice(['c01', 'c01', 'c02'])
            g = gen_prog.generate(rng, mode, size)
            for f in g['features']:
                part.hist('generated_program_features', f)
            meta = {'kind': 'gen', 'index': i, 'seed': seed, 'root_kind': 'gen'}
            mon.text(g['text'], proj.filename, proj.root, meta, 'gen:%s:%s' % (seed, i), k,
                     '%s:C13:genlayout:%s' % (seed, i))
    finally:
        proj.close()
    out = part.dump()
    _strip(out, proj.root)
    return out


# ------------------------------------------------------------------------------------------------
# G-mls: bindings whose value ends in a string literal that runs over several physical lines, read on the
# line where the literal ends.  The stdlib unparser renders every string on one line, so only texts that
# keep the author's string tokens can show what an analysis does with them; G-prog has no such literals.

MLS_CONSTRUCTS = ('assign', 'augassign', 'annassign', 'walrus-stmt', 'walrus-operand', 'walrus-if', 'for-iter',
                  'with-item', 'with-second-item', 'assign-in-for-body', 'return-after')
MLS_SHAPES = ('triple', 'triple-bytes', 'triple-f', 'triple-raw', 'concat', 'concat-triple', 'call-last-arg',
              'call-last-arg-next-line', 'call-kw', 'method-call', 'subscript', 'binop', 'mod', 'list-last',
              'dict-last-value', 'ifexp-else', 'call-kw-before-star')
_WORDS = ['alpha', 'beta', 'gamma gamma', 'delta:', '<html>', '</p>', 'x', 'ok', '%s', 'end of text', '-', '']
_Q3 = ['"' * 3, "'" * 3]


def mls_value(shape, rng, cont):
    """-> source text of an expression whose textually last part is a multi-line string; `cont` = indentation of
    continuation lines inside brackets (small, so that what follows the literal sits at a small column)"""
    w1, w2, w3 = rng.choice(_WORDS[:8]), rng.choice(['', 'x', 'ok', '-', '</p>']), rng.choice(_WORDS[:6])
    q3 = rng.choice(_Q3)
    t = '%s%s\n%s%s' % (q3, w1, w2, q3)
    if rng.random() < 0.3:
        t = '%s%s\n%s\n%s%s' % (q3, w1, w3, w2, q3)
    if shape == 'triple':
        return t
    if shape == 'triple-bytes':
        return 'b' + t
    if shape == 'triple-raw':
        return rng.choice(['r', 'R', 'u', 'rb']) + t
    if shape == 'triple-f':
        return 'f%s%s {q}\n%s%s' % (q3, w1, w2, q3)
    if shape == 'concat':
        return '("%s"\n%s"%s")' % (w1, cont, w2)
    if shape == 'concat-triple':
        return '(%s\n%s"%s")' % (t, cont, w2)
    if shape == 'call-last-arg':
        return 'v(q, %s)' % t
    if shape == 'call-last-arg-next-line':
        return 'v(q,\n%s%s)' % (cont, t)
    if shape == 'call-kw':
        return 'v(k=%s)' % t
    if shape == 'method-call':
        return '%s.strip()' % t
    if shape == 'subscript':
        return 'q[%s]' % t
    if shape == 'binop':
        return 'q + %s' % t
    if shape == 'mod':
        return '%s %% q' % t
    if shape == 'list-last':
        return '[q, %s]' % t
    if shape == 'dict-last-value':
        return '{q: %s}' % t
    if shape == 'ifexp-else':
        return '(q if q() else %s)' % t
    if shape == 'call-kw-before-star':
        return 'v(k=%s, *q)' % t
    raise ValueError(shape)


def mls_pair(construct, shape, rng):
    """-> (split layout, joined layout) of one small program, or None"""
    long_name = rng.random() < 0.8
    n = rng.choice(['page_template_text', 'long_banner_message_', 'usage_text_of_the_tool']) if long_name else rng.choice(['x', 'y'])
    in_def = rng.random() < 0.5
    ind = '    ' if in_def else ''
    cont = ' ' * rng.choice([0, 0, 1, 2])
    pad = ' ' * rng.choice([1, 1, 1, 4, 12])
    V = mls_value(shape, rng, cont)
    sep = rng.choice(['; ', ';', ' ; '])
    read = rng.choice(['v(%s)', 'q(v, %s)', '%s', 'w = %s']) % n
    head = 'from vf_rt import v, q, it, cm\n' + ('def fn(p):\n' if in_def else '')
    pre = ''
    if construct == 'assign':
        stmt = '%s =%s%s' % (n, pad, V)
    elif construct == 'augassign':
        pre = '%s%s = v()\n' % (ind, n)
        stmt = '%s +=%s%s' % (n, pad, V)
    elif construct == 'annassign':
        stmt = '%s: v =%s%s' % (n, pad, V)
    elif construct == 'walrus-stmt':
        stmt = 'v((%s :=%s%s))' % (n, pad, V)
    elif construct == 'return-after':
        if not in_def:
            return None
        stmt = '%s =%s%s' % (n, pad, V)
        read = 'return %s' % n
    elif construct == 'walrus-operand':
        a = '%s%sv((%s :=%s%s),\n%s        %s, q)\n' % (head, ind, n, pad, V, ind, n)
        b = '%s%sv((%s :=%s%s), %s, q)\n' % (head, ind, n, pad, V, n)
        return a, b
    elif construct == 'walrus-if':
        a = '%s%sif (%s :=%s%s):\n%s    %s\n' % (head, ind, n, pad, V, ind, read)
        b = '%s%sif (%s :=%s%s): %s\n' % (head, ind, n, pad, V, read)
        return a, b
    elif construct == 'for-iter':
        a = '%s%sfor %s in%s%s:\n%s    %s\n%s%s\n' % (head, ind, n, pad, V, ind, read, ind, read)
        b = '%s%sfor %s in%s%s: %s\n%s%s\n' % (head, ind, n, pad, V, read, ind, read)
        return a, b
    elif construct == 'with-item':
        a = '%s%swith cm(%s%s) as %s:\n%s    %s\n' % (head, ind, pad, V, n, ind, read)
        b = '%s%swith cm(%s%s) as %s: %s\n' % (head, ind, pad, V, n, read)
        return a, b
    elif construct == 'with-second-item':
        a = '%s%swith cm() as %s, cm(%s,%s%s) as c:\n%s    %s\n%s    v(c)\n' % (head, ind, n, n, pad, V, ind, read, ind)
        b = '%s%swith cm() as %s, cm(%s,%s%s) as c: %s%sv(c)\n' % (head, ind, n, n, pad, V, read, sep)
        return a, b
    elif construct == 'assign-in-for-body':
        a = '%s%sfor i in it():\n%s    %s =%s%s\n%s    %s\n' % (head, ind, ind, n, pad, V, ind, read)
        b = '%s%sfor i in it(): %s =%s%s%s%s\n' % (head, ind, n, pad, V, sep, read)
        return a, b
    else:
        raise ValueError(construct)
    a = '%s%s%s%s\n%s%s\n' % (head, pre, ind, stmt, ind, read)
    b = '%s%s%s%s%s%s\n' % (head, pre, ind, stmt, sep, read)
    return a, b


def work_mls(arg):
    """every construct x value shape, `reps` random instantiations each: split layout vs joined layout, and one of
    the two against its normal form and k random re-layouts (which may keep the string tokens and join statements)"""
    seed, rep0, reps, k = arg
    from vf import dynexec
    part = core.Part()
    mon = Monitor(part)
    proj = dynexec.Project()
    try:
        for rep in range(rep0, rep0 + reps):
            for c in MLS_CONSTRUCTS:
                for sh in MLS_SHAPES:
                    rng = random.Random('%s:C13:mls:%s:%s:%s' % (seed, rep, c, sh))
                    pr = mls_pair(c, sh, rng)
                    if pr is None:
                        continue
                    a, b = pr
                    name = '%s/%s/%s' % (c, sh, rep)
                    part.count('mls_programs')
                    try:
                        relayout.parse_quiet(a)
                        relayout.parse_quiet(b)
                    except SyntaxError:
                        part.count('mls_programs_discarded:syntax(generator bug)')
                        continue
                    part.hist('mls_construct', c)
                    part.hist('mls_shape', sh)
                    meta = {'kind': 'mls', 'index': name, 'seed': seed, 'root_kind': 'gen', 'base': 'mls-joined',
                            'layout': 'joined'}
                    A = analyse(a, proj.filename, proj.root)
                    if mon.pair(A, b, meta, proj.filename, proj.root, 'mls:%s:%s' % (seed, name),
                                {'semicolon-joined': 1, 'multi-line-string': 1}):
                        part.count('mls_pairs_compared(split vs joined)')
                    meta = {'kind': 'mls', 'index': name, 'seed': seed, 'root_kind': 'gen'}
                    mon.text(b if rng.random() < 0.3 else a, proj.filename, proj.root, meta, 'mls:%s:%s' % (seed, name),
                             k, '%s:C13:mlslayout:%s' % (seed, name), base='unparse')
    finally:
        proj.close()
    out = part.dump()
    _strip(out, proj.root)
    return out


# ------------------------------------------------------------------------------------------------
# G-stub: compound statements whose whole body is one docstring / constant / `...` / `pass` statement (stubs,
# protocol methods, abstract methods), in the own-line and the one-line layout, with headers that read names
# spelled like the statement's own name or like the names it binds (parameters, targets).  G-prog bodies always
# do something and carry no docstrings.

STUB_CONSTRUCTS = ('def', 'async-def', 'method', 'nested-def', 'decorated-def', 'class', 'decorated-class', 'for',
                   'async-for', 'with', 'except', 'walrus-if', 'walrus-while', 'try-finally')
STUB_BODIES = ('docstring', 'triple-docstring', 'multi-line-docstring', 'ellipsis', 'pass', 'constant', 'bytes',
               'docstring+pass', 'docstring+constant', 'fstring', 'none')
STUB_HEADERS = ('default-own-name', 'default-param', 'annotation-own-name', 'annotation-param', 'returns-own-name',
                'returns-param', 'kwonly-default-own-name', 'vararg-annotation-param', 'two-defaults')


def stub_body(kind, rng):
    """-> list of simple statements"""
    doc = rng.choice(['"doc"', "'Return the thing.'", 'r"doc\\d"', 'u"doc"'])
    if kind == 'docstring':
        return [doc]
    if kind == 'triple-docstring':
        return [rng.choice(['"' * 3, "'" * 3]).join(['', 'Return the thing.', ''])]
    if kind == 'multi-line-docstring':
        q3 = rng.choice(['"' * 3, "'" * 3])
        return ['%sReturn the thing.\n\n    more\n    %s' % (q3, q3)]
    if kind == 'ellipsis':
        return ['...']
    if kind == 'pass':
        return ['pass']
    if kind == 'constant':
        return [rng.choice(['0', '1.5', 'True', '(0)'])]
    if kind == 'none':
        return ['None']
    if kind == 'bytes':
        return ['b"doc"']
    if kind == 'fstring':
        return ['f"doc"']
    if kind == 'docstring+pass':
        return [doc, 'pass']
    if kind == 'docstring+constant':
        return [doc, rng.choice(['...', '0'])]
    raise ValueError(kind)


def stub_pair(construct, body_kind, header, rng):
    """-> (own-line layout, one-line layout) or None"""
    body = stub_body(body_kind, rng)
    name = rng.choice(['retry', 'again', 'handler', 'f'])
    par = rng.choice(['times', 'fn', 'p'])
    par2 = rng.choice(['limit', 'k', 'r'])
    out = ['from vf_rt import v, q, it, cm, m, d, dd, et']
    bound = []
    for n in (name, par, par2):
        if rng.random() < 0.6:
            out.append('%s = v()' % n)          # bound earlier in the enclosing scope
            bound.append(n)
    ind = ''
    if construct == 'method':
        out.append('class Host:')
        ind = '    '
        if rng.random() < 0.5:
            out.append('%s%s = v()' % (ind, name))
    elif construct == 'nested-def':
        out.append('def outer(%s):' % rng.choice([par, 'z', name]))
        ind = '    '
        if rng.random() < 0.4:
            out.append('%s%s = v()' % (ind, name))
    pre = []           # lines above the header (decorators)
    tail = []          # statements after the compound statement
    if construct in ('def', 'async-def', 'method', 'nested-def', 'decorated-def'):
        kw = 'async def' if construct == 'async-def' else 'def'
        first = 'self, ' if construct == 'method' and rng.random() < 0.7 else ''
        ret = ''
        if header == 'default-own-name':
            params = '%s%s=%s' % (first, par, name)
        elif header == 'default-param':
            params = '%s%s, %s=%s' % (first, par, par2, par)
        elif header == 'annotation-own-name':
            params = '%s%s: %s' % (first, par, name)
        elif header == 'annotation-param':
            params = '%s%s: %s = None' % (first, par, par)
        elif header == 'returns-own-name':
            params, ret = '%s%s' % (first, par), ' -> %s' % name
        elif header == 'returns-param':
            params, ret = '%s%s' % (first, par), ' -> %s' % par
        elif header == 'kwonly-default-own-name':
            params = '%s%s, *, %s=%s' % (first, par, par2, name)
        elif header == 'vararg-annotation-param':
            params = '%s*%s: %s, **%s: %s' % (first, par, par, par2, name)
        elif header == 'two-defaults':
            params = '%s%s=%s, %s=v(%s, %s)' % (first, par, name, par2, par, name)
        else:
            raise ValueError(header)
        if construct == 'decorated-def':
            pre.append('@%s' % rng.choice(['d', 'dd(%s)' % name, 'dd(%s)' % par]))
        head = '%s %s(%s)%s:' % (kw, name, params, ret)
        tail.append('v(%s)' % name)
    elif construct in ('class', 'decorated-class'):
        base = {'default-own-name': name, 'default-param': 'v(%s)' % name, 'annotation-own-name': '%s, metaclass=%s' % (name, name),
                'returns-own-name': 'metaclass=%s' % name}.get(header)
        if base is None:
            return None
        if construct == 'decorated-class':
            pre.append('@dd(%s)' % name)
        head = 'class %s(%s):' % (name, base)
        tail.append('v(%s)' % name)
    elif construct in ('for', 'async-for'):
        if header not in ('default-own-name', 'default-param', 'two-defaults'):
            return None
        if construct == 'async-for':
            out.append('%sasync def co():' % ind)
            ind += '    '
        tgt = {'default-own-name': name, 'default-param': '%s, %s' % (name, par), 'two-defaults': '[%s, *%s]' % (name, par)}[header]
        head = '%sfor %s in it(%s):' % ('async ' if construct == 'async-for' else '', tgt, name)
        tail.append('v(%s)' % name)
    elif construct == 'with':
        if header not in ('default-own-name', 'default-param', 'two-defaults'):
            return None
        head = {'default-own-name': 'with cm(%s) as %s:' % (name, name),
                'default-param': 'with cm(%s) as %s, cm(%s, %s) as %s:' % (name, name, name, par, par),
                'two-defaults': 'with (cm(%s) as %s, cm(%s) as %s):' % (par, name, name, par)}[header]
        tail.append('v(%s)' % name)
    elif construct == 'except':
        if header not in ('default-own-name', 'default-param'):
            return None
        out.append('%stry:' % ind)
        out.append('%s    m(KeyError)' % ind)
        head = 'except et(%s) as %s:' % (name if header == 'default-own-name' else par, name)
        tail.append('v(%s)' % name)
    elif construct in ('walrus-if', 'walrus-while'):
        if header not in ('default-own-name', 'default-param'):
            return None
        head = '%s (%s := v(%s)) and q(%s):' % ('if' if construct == 'walrus-if' else 'while', name,
                                                  name if header == 'default-own-name' else par, name)
        tail.append('v(%s)' % name)
    elif construct == 'try-finally':
        if header != 'default-own-name':
            return None
        head = 'try:'
        tail = None
    else:
        raise ValueError(construct)
    lead = [ind + ln for ln in pre]
    own = lead + [ind + head] + [ind + '    ' + st for st in body]
    one = lead + [ind + head + rng.choice([' ', ' ', '']) + rng.choice(['; ', ';']).join(body)]
    if tail is None:
        fin = ['%sfinally:' % ind, '%s    %s = v(%s)' % (ind, name, name)]
        own += fin + ['%sv(%s)' % (ind, name)]
        one += ['%sfinally: %s = v(%s)' % (ind, name, name), '%sv(%s)' % (ind, name)]
    else:
        own += [ind + t for t in tail]
        one += [ind + t for t in tail]
    return '\n'.join(out + own) + '\n', '\n'.join(out + one) + '\n'


def work_stub(arg):
    """every construct x body x header shape, one random instantiation per rep: own-line vs one-line layout, and one of
    the two against its normal form and k random re-layouts"""
    seed, rep, k = arg
    from vf import dynexec
    part = core.Part()
    mon = Monitor(part)
    proj = dynexec.Project()
    try:
        for c in STUB_CONSTRUCTS:
            for bk in STUB_BODIES:
                for h in STUB_HEADERS:
                    rng = random.Random('%s:C13:stub:%s:%s:%s:%s' % (seed, rep, c, bk, h))
                    pr = stub_pair(c, bk, h, rng)
                    if pr is None:
                        continue
                    a, b = pr
                    name = '%s/%s/%s/%s' % (c, bk, h, rep)
                    part.count('stub_programs')
                    try:
                        relayout.parse_quiet(a)
                        relayout.parse_quiet(b)
                    except SyntaxError:
                        part.count('stub_programs_discarded:syntax(generator bug)')
                        continue
                    part.hist('stub_construct', c)
                    part.hist('stub_body', bk)
                    meta = {'kind': 'stub', 'index': name, 'seed': seed, 'root_kind': 'gen', 'base': 'stub-one-line',
                            'layout': 'one-line'}
                    A = analyse(a, proj.filename, proj.root)
                    if mon.pair(A, b, meta, proj.filename, proj.root, 'stub:%s:%s' % (seed, name),
                                {'one-line-compound': 1, 'stub-body': 1}):
                        part.count('stub_pairs_compared(own-line vs one-line)')
                    if k:
                        meta = {'kind': 'stub', 'index': name, 'seed': seed, 'root_kind': 'gen'}
                        mon.text(b if rng.random() < 0.3 else a, proj.filename, proj.root, meta,
                                 'stub:%s:%s' % (seed, name), k, '%s:C13:stublayout:%s' % (seed, name))
    finally:
        proj.close()
    out = part.dump()
    _strip(out, proj.root)
    return out


def work_probes(arg):
    """hand-written layouts of the constructs whose visibility position supp synthesises"""
    seed, k = arg
    from vf import dynexec
    part = core.Part()
    mon = Monitor(part)
    proj = dynexec.Project()
    try:
        for i, (name, a, b) in enumerate(PROBES):
            part.count('probe_pairs')
            if not relayout.same_ast(a, b):
                part.count('pairs_discarded:ast-differs(generator bug)')
                continue
            A = analyse(a, proj.filename, proj.root)
            meta = {'kind': 'probe', 'index': name, 'root_kind': 'gen', 'base': 'probe', 'layout': name}
            mon.pair(A, b, meta, proj.filename, proj.root, 'probe:%s' % name, {'probe': 2})
    finally:
        proj.close()
    out = part.dump()
    _strip(out, proj.root)
    return out


def _strip(out, root):
    s = json.dumps(out)
    if root in s:
        out.clear()
        out.update(json.loads(s.replace(root, '<genroot>')))


def dispatch(job):
    return globals()[job[0]](job[1])


# (name, layout A, layout B): the same tree written in two ways
PROBES = [
    ('for-oneline', 'from vf_rt import it, v\nfor x in it():\n    v(x)\nv(x)\n', 'from vf_rt import it, v\nfor x in it(): v(x)\nv(x)\n'),
    ('for-decorated-body', 'from vf_rt import it, d\nfor x in it():\n    @d(x)\n    def f(): pass\n',
     'from vf_rt import it, d\nfor x in it():\n    @(\nd(x))\n    def f(): pass\n'),
    ('for-decorated-body-backslash', 'from vf_rt import it, d\nfor x in it():\n    @d(x)\n    def f(): pass\n',
     'from vf_rt import it, d\nfor x in it():\n    @\\\nd(x)\n    def f(): pass\n'),
    ('param-decorated-body', 'from vf_rt import d\ndef g(a):\n    @d(a)\n    def f(): pass\n    return f\n',
     'from vf_rt import d\ndef g(a):\n    @d(\na)\n    def f(): pass\n    return f\n'),
    ('param-decorated-body-paren', 'from vf_rt import d\ndef g(a):\n    @d(a)\n    def f(): pass\n    return f\n',
     'from vf_rt import d\ndef g(a):\n    @(\nd(a))\n    def f(): pass\n    return f\n'),
    ('with-decorated-body', 'from vf_rt import cm, d\nwith cm() as a:\n    @d(a)\n    def f(): pass\n',
     'from vf_rt import cm, d\nwith cm() as a:\n    @(\nd(a))\n    def f(): pass\n'),
    ('except-decorated-body', 'from vf_rt import m, d\ntry:\n    m(KeyError)\nexcept KeyError as e:\n    @d(e)\n    class K: pass\n',
     'from vf_rt import m, d\ntry:\n    m(KeyError)\nexcept KeyError as e:\n    @\\\n  d(e)\n    class K: pass\n'),
    ('semicolon-assign-read', 'from vf_rt import v\nx = v()\ny = v(x)\nv(y)\n', 'from vf_rt import v\nx = v(); y = v(x); v(y)\n'),
    ('bracket-value', 'from vf_rt import v\nx = v(v, v)\ny = v(x)\nv(y)\n', 'from vf_rt import v\nx = v(v,\n v\n); y = v(\nx\n); v(y)\n'),
    ('with-oneline', 'from vf_rt import cm, v\nwith cm() as a, cm(a) as b:\n    v(a, b)\n', 'from vf_rt import cm, v\nwith (cm() as a,\n cm(a) as b): v(a, b)\n'),
    ('except-oneline', 'from vf_rt import m, v\ntry:\n    m(KeyError)\nexcept KeyError as e:\n    v(e)\n', 'from vf_rt import m, v\ntry: m(KeyError)\nexcept KeyError as e: v(e)\n'),
    ('def-oneline', 'from vf_rt import v\ndef f(a, b=v):\n    return v(a, b, f)\nv(f)\n', 'from vf_rt import v\ndef f(a, b=v): return v(a, b, f)\nv(f)\n'),
    ('class-oneline', 'from vf_rt import v\nclass K:\n    a = v()\n    b = v(a)\nv(K)\n', 'from vf_rt import v\nclass K: a = v(); b = v(a)\nv(K)\n'),
    ('import-many-lines', 'from pkg.mod import (ma, mb)\nma\n', 'from pkg.mod import (ma,' + '\n' * 60 + 'mb)\nma\n'),
    ('import-comment-name', 'from pkg.mod import (ma, mb)\nma\n', 'from pkg.mod import (  # mb, ma\n    ma, mb)\nma\n'),
    ('lambda-multiline', 'from vf_rt import v\nf = lambda a, b=v: v(a, b)\nv(f)\n', 'from vf_rt import v\nf = (lambda a,\n b=v:\nv(a,\nb))\nv(f)\n'),
    ('comp-multiline', 'from vf_rt import v, it\nx = [v(i, j) for i in it() for j in it(i) if v(i, j)]\nv(x)\n',
     'from vf_rt import v, it\nx = [\nv(i,\nj)\nfor i in it()\nfor j in it(i)\nif v(i, j)]\nv(x)\n'),
    ('walrus-multiline', 'from vf_rt import v, q\nif (y := v()) and q(y):\n    v(y)\n', 'from vf_rt import v, q\nif ((y :=\n v())\n and q(\ny)): v(y)\n'),
    ('while-oneline', 'from vf_rt import v, q\nx = v()\nwhile q(x):\n    x = v(x)\nv(x)\n', 'from vf_rt import v, q\nx = v()\nwhile q(x): x = v(x)\nv(x)\n'),
    ('if-else-oneline', 'from vf_rt import v, q\nif q():\n    x = v()\nelse:\n    x = v()\nv(x)\n', 'from vf_rt import v, q\nif q(): x = v()\nelse: x = v()\nv(x)\n'),
    ('call-kw-star-lines', 'from vf_rt import v\na = v()\nx = v(k=a, *a)\nv(x)\n', 'from vf_rt import v\na = v()\nx = v(k=a,\n*a)\nv(x)\n'),
    ('indent-one', 'from vf_rt import v, q\ndef f(a):\n    if q(a):\n        b = v(a)\n        return b\n    return a\n',
     'from vf_rt import v, q\ndef f(a):\n if q(a):\n  b = v(a)\n  return b\n return a\n'),
    ('indent-tab', 'from vf_rt import v, q\ndef f(a):\n    if q(a):\n        b = v(a)\n        return b\n    return a\n',
     'from vf_rt import v, q\ndef f(a):\n\tif q(a):\n\t\tb = v(a)\n\t\treturn b\n\treturn a\n'),
]


# ------------------------------------------------------------------------------------------------

RULE = ('case = one pair (text T, re-layout T\') that passed the AST-identity check and the correspondence check and '
        'was compared through lint and through every Load name; T ranges over real files (stdlib + repository, '
        'ASCII-only, no carriage returns) and G-prog programs, T\' over the ast.unparse normal form, k random '
        're-layouts from vf/relayout.py and hand-written probe layouts; a pair is non-trivial if the re-layout '
        'applied at least 2 different layout features (the normal form counts as 2), the text has >= 5 reads and '
        'lint returned >= 1 row; distinct by (file or (seed, index), layout index)')


def main(run):
    k = run.pick(3, 12)
    files = corpus.select(run, 100)
    sizes = {}
    for f in files:
        try:
            sizes[f] = os.path.getsize(f)
        except OSError:
            sizes[f] = 0
    files.sort(key=lambda f: -sizes[f])
    jobs = []
    group, gsize = [], 0
    for f in files:
        if sizes[f] > 50000:
            jobs.append(['work_files', [run.seed, [f], k]])
            continue
        group.append(f)
        gsize += sizes[f]
        if gsize > 80000 or len(group) >= 10:
            jobs.append(['work_files', [run.seed, group, k]])
            group, gsize = [], 0
    if group:
        jobs.append(['work_files', [run.seed, group, k]])
    jobs.append(['work_probes', [run.seed, k]])
    stub_reps = run.pick(1, 8)
    for r in range(stub_reps):
        jobs.append(['work_stub', [run.seed, r, run.pick(1, 3)]])
    mls_reps = run.pick(2, 16)
    for r in range(mls_reps):
        jobs.append(['work_mls', [run.seed, r, 1, run.pick(2, 6)]])
    ngen = run.pick(300, 10000)
    per = run.pick(10, 100)
    for s in range(0, ngen, per):
        jobs.append(['work_gen', [run.seed, s, min(per, ngen - s), k]])
    for a, r in core.pmap('vf.props.c13:dispatch', jobs, timeout=run.pick(900, 3600)):
        if isinstance(r, dict) and ('_died' in r or '_timeout' in r or '_error' in r):
            run.inconclusive.append('worker failure on %s: %s' % (json.dumps(a)[:160], json.dumps(r)[:1500]))
        else:
            run.merge(r)
    by = {}
    for v in run.violations:
        by.setdefault(v['mech'], []).append(v)
    order = []
    i = 0
    while any(i < len(vs) for vs in by.values()):
        for m in sorted(by):
            if i < len(by[m]):
                order.append(by[m][i])
        i += 1
    run.violations[:] = order
    run.extra['workload'] = {
        'real_files': '%d files (%s)' % (len(files), 'all of stdlib + repository' if run.tier != 'quick'
                                         else 'feature-rich list + seed-rotated sample + repository'),
        'generated_programs': ngen,
        'relayouts_per_text': '1 normal form + %d random' % k,
        'probes': len(PROBES),
        'stub_body_programs': '%d constructs x %d bodies x %d header shapes (where applicable) x %d instantiations, own-line vs one-line + re-layouts' % (
            len(STUB_CONSTRUCTS), len(STUB_BODIES), len(STUB_HEADERS), stub_reps),
        'multi_line_string_programs': '%d constructs x %d value shapes x %d instantiations, split vs joined + re-layouts' % (
            len(MLS_CONSTRUCTS), len(MLS_SHAPES), mls_reps),
    }
    return run.finish(
        rule=RULE,
        require=('pairs_compared', 'reads_compared', 'lint_rows_compared', 'lint_positions_compared',
                 'reads_with_several_alternatives_compared', 'pairs_ast_identical'),
        assumptions=[
            'ASCII-only texts without carriage returns (ast columns are bytes, tokenizer columns characters); other files are counted as skipped',
            'a re-layout is accepted only if ast.dump(ast.parse(T)) == ast.dump(ast.parse(T\')) and the identifier tokens are the same strings in the same order; rejected pairs are counted, never reported',
            'rows / alternatives whose position is not the start of an identifier token in both layouts are C11\'s business and are not compared',
            'every analysis uses a fresh Project([root]) (no shared caches between the two layouts)',
            'exceptions escaping lint/extract_scope are C08\'s business; C13 only reports when the two layouts differ in that respect',
        ])


def replay(run, path):
    from vf import dynexec
    with open(path) as f:
        data = json.load(f)
    part = core.Part()
    mon = Monitor(part, cap=10 ** 6)
    proj = dynexec.Project()
    try:
        for v in data['violations']:
            c = v['case']
            if c.get('root_kind') == 'gen':
                filename, root = proj.filename, proj.root
            else:
                filename = c['path']
                root = corpus.stdlib_root() if c.get('root_kind') == 'stdlib' else core.REPO
            a, b = c['text'], c['text2']
            if not relayout.same_ast(a, b):
                part.count('pairs_discarded:ast-differs(generator bug)')
                continue
            A = analyse(a, filename, root)
            meta = {k: c.get(k) for k in ('kind', 'path', 'index', 'seed', 'root_kind', 'base', 'layout', 'layout_rng')}
            mon.pair(A, b, meta, filename, root, 'replay:%s:%s' % (c.get('path') or c.get('index'), c.get('layout')), {'replay': 2},
                     force_nontrivial=True)
    finally:
        proj.close()
    out = part.dump()
    _strip(out, proj.root)
    run.merge(out)
    return run.finish(rule=RULE + ' (replay of recorded pairs)', require=('pairs_compared',))
