"""C14 - MessagePack codec: lossless, spec-conformant, rejects truncation.

Monitor: every dumps()/loads() call on the real supp.umsgpack is observed and compared
with a reference decoder/encoder written from the specification (vf/msgpack_ref.py).
"""
import json
import struct

from vf import core, msgpack_ref as ref

INT_POWERS = (5, 7, 8, 15, 16, 31, 32, 63, 64)
LEN_EDGES = (15, 16, 31, 32, 255, 256, 65535, 65536)


def _um():
    from supp import umsgpack
    return umsgpack


def describe(x, limit=120):
    r = repr(x)
    return r if len(r) <= limit else r[:limit] + '...<%d chars>' % len(r)


class Mon(object):
    def __init__(self, part):
        self.p = part
        self.um = _um()
        self.Ext = self.um.Ext

    # -- single obligations -------------------------------------------------------------
    def value(self, x, tag, cuts='all'):
        """dumps(x) is valid msgpack for x, loads(dumps(x)) == x; prefixes are rejected."""
        p = self.p
        p.count('values')
        p.hist('value_kind', tag)
        want = ref.canon(x, self.Ext)
        try:
            data = self.um.dumps(x)
        except Exception as e:
            p.violation('dumps-raises', 'dumps(%s) raised %r' % (describe(x), e),
                        {'kind': 'value', 'value': describe(x, 2000), 'tag': tag})
            return None
        if not isinstance(data, bytes):
            p.violation('dumps-type', 'dumps(%s) returned %s' % (describe(x), type(data)),
                        {'kind': 'value', 'value': describe(x, 2000), 'tag': tag})
            return None
        # independent decoder reads the same value, consuming everything
        try:
            got_ref, used = ref.decode(data)
        except ref.RefError as e:
            p.violation('encoding-invalid', 'reference decoder rejects dumps(%s): %r' % (describe(x), e),
                        {'kind': 'value', 'value': describe(x, 2000), 'hex': data[:64].hex(), 'tag': tag})
            return None
        p.count('ref_decodes')
        if used != len(data) or ref.unordered(got_ref) != ref.unordered(want):
            p.violation('encoding-wrong', 'reference decoder reads dumps(%s) as %s (used %d of %d bytes)' % (
                describe(x), describe(got_ref), used, len(data)),
                {'kind': 'value', 'value': describe(x, 2000), 'hex': data[:64].hex(), 'tag': tag})
            return None
        if data == ref.encode(want, ref.minimal):
            p.count('dumps_minimal_format')
        else:
            p.count('dumps_not_minimal_format(observation only)')
        self.stream(data, want, tag + ':own')
        if cuts:
            self.prefixes(data, tag, cuts)
        return data

    def stream(self, data, want, tag):
        """loads(data) == want for a spec-valid stream."""
        p = self.p
        p.count('streams')
        try:
            back = self.um.loads(data)
        except Exception as e:
            p.violation('loads-rejects-valid', 'loads rejects valid stream %s.. (%s): %r' % (
                data[:24].hex(), tag, e), self.case({'kind': 'stream', 'hex': data.hex()[:200000], 'tag': tag}, data))
            return
        try:
            got = ref.canon(back, self.Ext)
        except TypeError as e:
            p.violation('loads-alien-type', 'loads returned a value outside the data model: %r' % e,
                        self.case({'kind': 'stream', 'hex': data.hex()[:200000], 'tag': tag}, data))
            return
        if ref.unordered(got) != ref.unordered(want):
            p.violation('loads-wrong', 'loads(%s..) = %s, expected %s (%s)' % (
                data[:24].hex(), describe(got), describe(want), tag),
                self.case({'kind': 'stream', 'hex': data.hex()[:200000], 'tag': tag}, data))

    hint = None

    def case(self, d, data):
        # encodings too long to store: the replay re-creates them from the arguments of the job
        if self.hint and len(data) > 100000:
            return dict(self.hint, tag=d.get('tag'), cut=d.get('cut'))
        return d

    def prefixes(self, data, tag, cuts='all'):
        p = self.p
        n = len(data)
        if cuts == 'all' or n <= 600:
            points = range(n)
        else:
            k = cuts if isinstance(cuts, int) else 200
            points = sorted(set(list(range(0, 40)) + list(range(n - 40, n)) + list(range(40, n, max(1, n // k)))))
        Short = self.um.InsufficientDataException
        for i in points:
            p.count('prefixes')
            try:
                r = self.um.loads(data[:i])
            except Short:
                continue
            except Exception as e:
                p.violation('prefix-wrong-exception', 'loads(prefix %d/%d of %s) raised %r, not InsufficientData' % (
                    i, n, tag, e), self.case({'kind': 'prefix', 'hex': data.hex()[:200000], 'cut': i, 'tag': tag}, data))
                return
            p.violation('prefix-accepted', 'loads(prefix %d/%d of %s) returned %s' % (i, n, tag, describe(r)),
                        self.case({'kind': 'prefix', 'hex': data.hex()[:200000], 'cut': i, 'tag': tag}, data))
            return

    def refused(self, n):
        p = self.p
        p.count('out_of_range_ints')
        try:
            data = self.um.dumps(n)
        except Exception:
            p.count('out_of_range_refused')
            return
        p.violation('int-wrapped', 'dumps(%d) returned %s instead of refusing' % (n, data.hex()),
                    {'kind': 'refuse', 'int': str(n)})


# ---------------------------------------------------------------------------------------
# enumerated spaces

def boundary_ints():
    out = set()
    for k in INT_POWERS:
        for s in (1, -1):
            for d in range(-3, 4):
                out.add(s * (1 << k) + d)
    out.update(range(-40, 40))
    return sorted(out)


def boundary_lengths(tier):
    out = set()
    for e in LEN_EDGES:
        for d in (-2, -1, 0, 1, 2):
            out.add(e + d)
    out.update((0, 1, 2, 3, 4, 5, 7, 8, 9))
    out = sorted(out)
    return out


def work_ints(arg):
    part = core.Part()
    m = Mon(part)
    for n in boundary_ints():
        part.case(('int', n), nontrivial=True)
        if -(1 << 63) <= n < (1 << 64):
            m.value(n, 'int')
            for alt in ref.int_formats(n):
                part.count('int_alt_formats')
                m.stream(alt, ('int', n), 'int-format-%02x' % alt[0])
                m.prefixes(alt, 'int-format-%02x' % alt[0])
            # also inside containers (dispatch from a nested position)
            m.value([n, {n: n}], 'int-nested')
        else:
            m.refused(n)
            try:
                _um().dumps([n])
            except Exception:
                part.count('out_of_range_refused_nested')
            else:
                part.violation('int-wrapped', 'dumps([%d]) did not refuse' % n, {'kind': 'refuse', 'int': str(n)})
    return part.dump()


BIG_PAYLOADS = (131073, 2 ** 20 - 1, 2 ** 20, 2 ** 20 + 1, 2 ** 20 + 4097, 3 * 2 ** 20 + 5)


def work_len(arg):
    kind, n, stride = arg
    part = core.Part()
    m = Mon(part)
    if n > 100000:
        part.count('payloads_over_100000_bytes')
        m.hint = {'kind': 'len', 'args': [kind, n, stride]}
    um = _um()
    part.case((kind, n), nontrivial=True)
    big = n > 600
    cuts = stride if big else 'all'
    if kind == 'str':
        vals = ['a' * n]
        if n >= 2:
            vals.append('é' * (n // 2) + ('x' if n % 2 else ''))       # 2-byte chars, n bytes
        if n >= 4:
            vals.append('\U0001f600' * (n // 4) + 'y' * (n % 4))            # 4-byte chars, n bytes
        for v in vals:
            assert len(v.encode('utf-8')) == n
            m.value(v, 'str%d' % n, cuts)
            for h in ref.len_headers('str', n):
                m.stream(h + v.encode('utf-8'), ('str', v), 'str-header-%02x' % h[0])
                m.prefixes(h + v.encode('utf-8'), 'str-header-%02x' % h[0], cuts)
    elif kind == 'bin':
        v = bytes((i * 7 + 3) & 0xff for i in range(n))
        m.value(v, 'bin%d' % n, cuts)
        for h in ref.len_headers('bin', n):
            m.stream(h + v, ('bin', v), 'bin-header-%02x' % h[0])
            m.prefixes(h + v, 'bin-header-%02x' % h[0], cuts)
    elif kind == 'ext':
        v = bytes((i * 5 + 1) & 0xff for i in range(n))
        for t in (0, 5, 127):
            m.value(um.Ext(t, v), 'ext%d' % n, cuts)
            for h in ref.ext_headers(t, n):
                m.stream(h + v, ('ext', t, v), 'ext-header-%02x' % h[0])
                m.prefixes(h + v, 'ext-header-%02x' % h[0], cuts)
    elif kind == 'arr':
        v = [(i % 100) for i in range(n)]
        m.value(v, 'arr%d' % n, cuts)
        m.value(tuple(v), 'tuple%d' % n, None)
        body = b''.join(bytes([i % 100]) for i in range(n))
        for h in ref.len_headers('arr', n):
            m.stream(h + body, ('arr', [('int', i % 100) for i in range(n)]), 'arr-header-%02x' % h[0])
            m.prefixes(h + body, 'arr-header-%02x' % h[0], cuts)
        if n < 300:
            m.value([[i] for i in range(n)], 'arr-of-arr%d' % n, cuts)
    elif kind == 'map':
        v = {i: (i % 50) for i in range(n)}
        m.value(v, 'map%d' % n, cuts)
        want = ref.canon(v, um.Ext)
        body = ref.encode(want, ref.minimal)
        hmin = ref.minimal(ref.len_headers('map', n))
        payload = body[len(hmin):]
        for h in ref.len_headers('map', n):
            m.stream(h + payload, want, 'map-header-%02x' % h[0])
            m.prefixes(h + payload, 'map-header-%02x' % h[0], cuts)
        if n < 300:
            m.value({'k%d' % i: [i] for i in range(n)}, 'map-str-keys%d' % n, cuts)
    return part.dump()


def _filler(c, rng):
    """a spec-valid stream whose first byte is c, and its canonical value."""
    n_of = {1: 1, 2: 2, 4: 4, 8: 8}
    small = ('int', 7)
    if c <= 0x7f:
        return bytes([c]), ('int', c)
    if c >= 0xe0:
        return bytes([c]), ('int', c - 256)
    if 0x80 <= c <= 0x8f:
        n = c & 0xf
        items = [(('int', i), ('str', 'v%d' % i)) for i in range(n)]
        return bytes([c]) + b''.join(ref.encode(k, ref.minimal) + ref.encode(v, ref.minimal) for k, v in items), ('map', items)
    if 0x90 <= c <= 0x9f:
        n = c & 0xf
        items = [('int', i) for i in range(n)]
        return bytes([c]) + bytes(range(n)), ('arr', items)
    if 0xa0 <= c <= 0xbf:
        n = c & 0x1f
        s = ''.join(chr(97 + i % 26) for i in range(n))
        return bytes([c]) + s.encode(), ('str', s)
    if c == 0xc0:
        return b'\xc0', ('nil',)
    if c == 0xc1:
        return None, None
    if c == 0xc2:
        return b'\xc2', ('bool', False)
    if c == 0xc3:
        return b'\xc3', ('bool', True)
    if c in (0xc4, 0xc5, 0xc6):
        size = 1 << (c - 0xc4)
        d = b'\x00\xffdata'
        return bytes([c]) + len(d).to_bytes(size, 'big') + d, ('bin', d)
    if c in (0xc7, 0xc8, 0xc9):
        size = 1 << (c - 0xc7)
        d = b'xyz'
        return bytes([c]) + len(d).to_bytes(size, 'big') + b'\x11' + d, ('ext', 0x11, d)
    if c == 0xca:
        return b'\xca' + struct.pack('>f', 1.5), ('float', struct.pack('>d', 1.5))
    if c == 0xcb:
        return b'\xcb' + struct.pack('>d', -2.25), ('float', struct.pack('>d', -2.25))
    if 0xcc <= c <= 0xcf:
        size = 1 << (c - 0xcc)
        v = (1 << (8 * size)) - 2
        return bytes([c]) + v.to_bytes(size, 'big'), ('int', v)
    if 0xd0 <= c <= 0xd3:
        size = 1 << (c - 0xd0)
        v = -(1 << (8 * size - 1)) + 1
        return bytes([c]) + v.to_bytes(size, 'big', signed=True), ('int', v)
    if 0xd4 <= c <= 0xd8:
        n = 1 << (c - 0xd4)
        d = bytes(range(n))
        return bytes([c]) + b'\x7f' + d, ('ext', 0x7f, d)
    if c in (0xd9, 0xda, 0xdb):
        size = 1 << (c - 0xd9)
        s = 'héllo'
        raw = s.encode()
        return bytes([c]) + len(raw).to_bytes(size, 'big') + raw, ('str', s)
    if c in (0xdc, 0xdd):
        size = 2 << (c - 0xdc)
        return bytes([c]) + (3).to_bytes(size, 'big') + b'\x01\x02\x03', ('arr', [('int', 1), ('int', 2), ('int', 3)])
    if c in (0xde, 0xdf):
        size = 2 << (c - 0xde)
        return bytes([c]) + (1).to_bytes(size, 'big') + b'\xa1k\xc0', ('map', [(('str', 'k'), ('nil',))])
    raise AssertionError(c)


SPECIAL_STRINGS = ['\ufeff', '\ufeffabc', 'abc\ufeff', '\ufeff\ufeff', '\ufffe', '\x00', '\x00abc', 'a\x00', '\r\n', '\u2028\u2029',
                   '\U0010ffff', '\ud7ff\ue000', '\x7f\x80\xff', 'e\u0301', '\u202e', ' ', '\t', '\\', '"', "'"]


def work_special(arg):
    """strings and byte strings whose first / last characters are special to some codec (BOM, NUL, line separators)"""
    part = core.Part()
    m = Mon(part)
    um = _um()
    for s_ in SPECIAL_STRINGS:
        for rep in (1, 40, 300):
            x = s_ * rep if rep > 1 else s_
            part.case(('special-str', x[:8], rep), nontrivial=True)
            m.value(x, 'special-str')
            m.value([x, {x: x}], 'special-str-nested')
            raw = x.encode('utf-8')
            for h in ref.len_headers('str', len(raw)):
                m.stream(h + raw, ('str', x), 'special-str-header-%02x' % h[0])
            m.value(raw, 'special-bytes')
            m.value(um.Ext(3, raw), 'special-ext')
    return part.dump()


def work_first_bytes(arg):
    part = core.Part()
    m = Mon(part)
    for c in range(256):
        data, want = _filler(c, None)
        part.case(('first-byte', c), nontrivial=True)
        if data is None:
            part.count('reserved_first_byte_skipped')
            continue
        got, used = ref.decode(data)
        assert used == len(data) and ref.unordered(got) == ref.unordered(want), (c, got, want)
        part.hist('first_byte_family', '%x_' % (c >> 4))
        m.stream(data, want, 'first-byte-%02x' % c)
        m.prefixes(data, 'first-byte-%02x' % c)
        # and nested one level: [x], {0: x}
        m.stream(b'\x91' + data, ('arr', [want]), 'first-byte-%02x-in-array' % c)
        m.stream(b'\x81\x00' + data, ('map', [(('int', 0), want)]), 'first-byte-%02x-in-map' % c)
    return part.dump()


def work_declared_lengths(arg):
    """headers that declare more payload than follows (a proper prefix of some valid message): every header width,
    declared lengths around the sign bits of 8/16/32-bit fields, followed by 0..40 payload bytes or items."""
    part = core.Part()
    m = Mon(part)
    um = _um()
    Short = um.InsufficientDataException
    heads = []
    for n in (0x7f, 0x80, 0xff):
        heads += [(b'\xd9' + bytes([n]), 'str8'), (b'\xc4' + bytes([n]), 'bin8'), (b'\xc7' + bytes([n]) + b'\x05', 'ext8')]
    for n in (0x7fff, 0x8000, 0xffff):
        b2 = n.to_bytes(2, 'big')
        heads += [(b'\xda' + b2, 'str16'), (b'\xc5' + b2, 'bin16'), (b'\xc8' + b2 + b'\x05', 'ext16'),
                  (b'\xdc' + b2, 'arr16'), (b'\xde' + b2, 'map16')]
    for n in (0x7fffffff, 0x80000000, 0x80000001, 0xc0000000, 0xffffffff):
        b4 = n.to_bytes(4, 'big')
        heads += [(b'\xdb' + b4, 'str32'), (b'\xc6' + b4, 'bin32'), (b'\xc9' + b4 + b'\x05', 'ext32'),
                  (b'\xdd' + b4, 'arr32'), (b'\xdf' + b4, 'map32')]
    for head, tag in heads:
        for k in (0, 1, 3, 40):
            for wrap in (b'', b'\x92\x01'):
                if tag.startswith('map'):
                    body = b''.join(bytes([i]) + b'\xc0' for i in range(20))    # distinct keys 0..19, nil values
                elif tag.startswith('arr'):
                    body = b'\x01' * 40
                else:
                    body = b'abc' * 14
                data = wrap + head + body[:k]
                part.case(('declared-length', tag, head.hex(), k, wrap.hex()), nontrivial=True)
                part.count('truncated_streams_with_large_declared_length')
                try:
                    r = um.loads(data)
                except Short:
                    continue
                except MemoryError:
                    part.count('declared_length_memory_error(not judged)')
                    continue
                except Exception as e:
                    part.violation('prefix-wrong-exception', 'loads(%s.. %s with declared length, %d bytes follow) raised %r, not InsufficientData' % (
                        data[:12].hex(), tag, k, e), {'kind': 'declared', 'hex': data.hex(), 'tag': tag})
                    continue
                part.violation('prefix-accepted', 'loads(%s: %s header declaring more than the %d bytes that follow) returned %s' % (
                    data[:12].hex(), tag, k, describe(r)), {'kind': 'declared', 'hex': data.hex(), 'tag': tag})
    return part.dump()


SPECIAL_FLOATS = [0.0, -0.0, 1.0, -1.0, float('inf'), float('-inf'), float('nan'), 1e308, 5e-324, 2.0 ** -126,
                  1.5, 3.4028234663852886e38, 0.1, -123456.789]


def gen_py(rng, depth, Ext, key=False):
    """random Python value of the data model; key=True -> hashable."""
    kinds = ['nil', 'bool', 'int', 'float', 'str', 'bin']
    if depth > 0:
        kinds += ['arr', 'arr']
        if not key:
            kinds += ['map', 'map', 'ext']
    k = rng.choice(kinds)
    if k == 'nil':
        return None
    if k == 'bool':
        return rng.random() < 0.5
    if k == 'int':
        r = rng.random()
        if r < 0.4:
            return rng.randint(-40, 300)
        if r < 0.8:
            p = rng.choice(INT_POWERS)
            return max(-(1 << 63), min((1 << 64) - 1, rng.choice((1, -1)) * (1 << p) + rng.randint(-3, 3)))
        return rng.randint(-(1 << 63), (1 << 64) - 1)
    if k == 'float':
        if key:
            return rng.choice([0.5, -2.75, 1e100, 12345.678])
        r = rng.random()
        if r < 0.5:
            return rng.choice(SPECIAL_FLOATS)
        return struct.unpack('>d', struct.pack('>Q', rng.getrandbits(64)))[0]
    if k == 'str':
        n = rng.choice([0, 1, 5, 31, 32, 33, 255, 256, 300])
        alphabet = rng.choice(['abc', 'aé中', '\U0001f600z', ' \n\x00"\\', '\ufeffa', '\u2028\x85\r'])
        return ''.join(rng.choice(alphabet) for _ in range(rng.randint(0, n)))
    if k == 'bin':
        n = rng.choice([0, 1, 15, 16, 255, 256, 257, 400])
        return bytes(rng.getrandbits(8) for _ in range(rng.randint(0, n)))
    if k == 'ext':
        n = rng.choice([0, 1, 2, 3, 4, 5, 8, 9, 16, 17, 255, 256])
        return Ext(rng.randint(0, 127), bytes(rng.getrandbits(8) for _ in range(n)))
    if k == 'arr':
        n = rng.choice([0, 1, 2, 3, 15, 16, 17])
        items = [gen_py(rng, depth - 1, Ext, key) for _ in range(rng.randint(0, n))]
        return tuple(items) if key else (items if rng.random() < 0.8 else tuple(items))
    if k == 'map':
        n = rng.choice([0, 1, 2, 3, 15, 16, 17])
        d = {}
        for _ in range(rng.randint(0, n)):
            d[gen_py(rng, min(depth - 1, 2), Ext, key=True)] = gen_py(rng, depth - 1, Ext)
        return d
    raise AssertionError(k)


def depth_of(x):
    if isinstance(x, (list, tuple)):
        return 1 + max([depth_of(e) for e in x] or [0])
    if isinstance(x, dict):
        return 1 + max([max(depth_of(k), depth_of(v)) for k, v in x.items()] or [0])
    return 0


def work_random(arg):
    seed, start, count = arg
    import random
    part = core.Part()
    m = Mon(part)
    um = _um()
    for i in range(start, start + count):
        rng = random.Random('%s:C14:rand:%d' % (seed, i))
        x = gen_py(rng, rng.randint(1, 6), um.Ext)
        d = depth_of(x)
        part.hist('random_value_depth', d)
        part.case(('rand', seed, i), nontrivial=d >= 1)
        data = m.value(x, 'random', 'stride')
        # the same value through the reference encoder with arbitrary legal formats
        want = ref.canon(x, um.Ext)
        for j in range(3):
            enc = ref.encode(want, rng.choice)
            g, used = ref.decode(enc)
            assert used == len(enc) and ref.unordered(g) == ref.unordered(want)
            part.count('non_minimal_streams' if enc != data else 'minimal_streams')
            m.stream(enc, want, 'random-ref-encoded')
            if j == 0:
                m.prefixes(enc, 'random-ref-encoded', 'stride')
        if len(part.samples) < 2 and d >= 2 and len(repr(x)) < 300:
            part.sample({'value': repr(x), 'dumps_hex': (data or b'').hex()[:120]})
    return part.dump()


def main(run):
    tasks = [('vf.props.c14:work_ints', [0]), ('vf.props.c14:work_first_bytes', [0]), ('vf.props.c14:work_special', [0]),
             ('vf.props.c14:work_declared_lengths', [0])]
    lens = boundary_lengths(run.tier)
    len_args = [[k, n, run.pick(24, 400)] for k in ('str', 'bin', 'ext', 'arr', 'map') for n in lens]
    # payloads beyond every plausible internal buffer or chunk size (cuts inside the payload, at its ends and strided)
    len_args += [[k, n, run.pick(48, 400)] for k in ('str', 'bin', 'ext') for n in BIG_PAYLOADS]
    nrand = run.pick(3000, 60000)
    per = run.pick(200, 1000)
    rand_args = [[run.seed, s, per] for s in range(0, nrand, per)]
    jobs = [(fn, a) for fn, args in tasks for a in args]
    jobs += [('vf.props.c14:work_len', a) for a in len_args]
    jobs += [('vf.props.c14:work_random', a) for a in rand_args]
    # big lengths first so the pool is balanced
    jobs.sort(key=lambda j: -(j[1][1] if j[0].endswith('work_len') else 0))
    for a, r in core.pmap('vf.props.c14:dispatch', [[fn, a] for fn, a in jobs]):
        if isinstance(r, dict) and ('_died' in r or '_timeout' in r or '_error' in r):
            run.inconclusive.append('worker failure on %s: %s' % (json.dumps(a)[:100], json.dumps(r)[:1500]))
        else:
            run.merge(r)
    run.extra['enumerated'] = {
        'integers': 'every integer within +-3 of +-2^k for k in %s, plus -40..39; each in every legal int format' % (INT_POWERS,),
        'lengths': 'str/bin/ext/array/map of every length in %s, each with every legal header width; str/bin/ext payloads of %s bytes' % (lens, BIG_PAYLOADS),
        'declared_lengths': 'str/bin/ext/array/map headers of every width declaring 0x7f/0x80/0xff, 0x7fff/0x8000/0xffff, 0x7fffffff/0x80000000/0x80000001/0xc0000000/0xffffffff items followed by 0, 1, 3 or 40 of them, alone and inside an array: must raise InsufficientData',
        'first_bytes': 'all 256 first bytes (0xc1 reserved: skipped), each alone and nested in array/map',
        'cut_points': 'every proper prefix for encodings <= 600 bytes; first/last 40 cuts + ~%d strided cuts for longer ones' % run.pick(24, 400),
        'special_strings': 'strings/bytes/ext whose first or last characters are special to some codec: %r' % (SPECIAL_STRINGS,),
        'random': '%d random nested values to depth 6, each also re-encoded 3x by the reference encoder with random legal formats' % nrand,
    }
    return run.finish(
        rule='case = one enumerated boundary value / length / first byte, or one random nested value; non-trivial = '
             'every enumerated case, and random values with at least one container level; distinct by (kind, value) or (seed, index)',
        require=('values', 'streams', 'prefixes', 'ref_decodes', 'out_of_range_refused', 'non_minimal_streams'),
        assumptions=['reference decoder/encoder in vf/msgpack_ref.py implements the MessagePack spec (self-checked: every reference-encoded stream is decoded back by the reference decoder before use)',
                     'ext types limited to 0..127, map keys hashable and pairwise distinct under Python equality, no NaN keys, lengths < 2^32',
                     'minimal-format choice by dumps is recorded but not required (the property does not state it)'],
        exhaustive=False)


def dispatch(arg):
    fn, a = arg
    import importlib
    mod, _, name = fn.partition(':')
    return getattr(importlib.import_module(mod), name)(a)


def replay(run, path):
    with open(path) as f:
        data = json.load(f)
    part = core.Part()
    m = Mon(part)
    for v in data['violations']:
        c = v['case']
        part.case(json.dumps(c)[:200], nontrivial=True)
        if c.get('kind') == 'stream':
            buf = bytes.fromhex(c['hex'])
            want, used = ref.decode(buf)
            m.stream(buf, want, 'replay:' + c.get('tag', ''))
        elif c.get('kind') == 'prefix':
            buf = bytes.fromhex(c['hex'])
            m.prefixes(buf, 'replay:' + c.get('tag', ''))
        elif c.get('kind') == 'refuse':
            m.refused(int(c['int']))
        elif c.get('kind') == 'declared':
            buf = bytes.fromhex(c['hex'])
            try:
                r = m.um.loads(buf)
                part.violation('prefix-accepted', 'replay: returned %s' % describe(r), c)
            except m.um.InsufficientDataException:
                pass
            except Exception as e:
                part.violation('prefix-wrong-exception', 'replay: raised %r' % e, c)
        elif c.get('kind') == 'len':
            run.merge(work_len(c['args']))
        else:
            print('replay: value cases are re-created by re-running the check at the same seed')
    run.merge(part.dump())
    for v in run.violations:
        print('REPLAYED', v['mech'], v['what'][:300])
    return 1 if run.violations else 0
