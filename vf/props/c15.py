"""C15 - remote calls are transparent and failures are isolated.

Monitor: request histories are sent through a real supp.remote.Environment (which starts
$VF_REPO/supp/server.py as a subprocess) and every reply is compared with an in-process
mirror (vf/remote_util.Mirror) that receives the same requests in the same order.  Faults
are injected at every index of short histories; after every request the server must still
be the same live process.
"""
import json
import os
import random
import re
import shutil
import tempfile

from vf import core
from vf import remote_util as ru
from vf.remote_util import rep, cat, path, tup, byt, hexb

NSERVERS = 8

# ---------------------------------------------------------------------------------------
# the small project every session works on (names are prefixed so that nothing on
# sys.path of either process can shadow them)

PROJECT_FILES = {
    'vfp_a.py': '''\
import os

CONST = 42
NAMES = ['a', 'b']


def make(n=1):
    return Thing(n)


def helper(x, y=2):
    return x + y


class Base(object):
    base_attr = 1

    def base_method(self):
        return self.base_attr


class Thing(Base):
    kind = 'thing'

    def __init__(self, n=0):
        self.size = n
        self.label = 'x'

    def grow(self, by):
        self.size += by
        return self

    @property
    def double(self):
        return self.size * 2
''',
    'vfp_pkg/__init__.py': '''\
from .mod import Widget

VERSION = '1.0'
''',
    'vfp_pkg/mod.py': '''\
from vfp_a import Thing, helper


class Widget(Thing):
    colour = 'red'

    def paint(self, colour):
        self.colour = colour
        return helper(1)


def build():
    return Widget()
''',
    'vfp_pkg/sub/__init__.py': '',
    'vfp_pkg/sub/leaf.py': '''\
from ..mod import Widget
from .. import VERSION

LEAF = Widget()
''',
    'vfp_uni.py': '''\
# -*- coding: utf-8 -*-
\u043d\u0430\u0437\u0432\u0430\u043d\u0438\u0435 = '\u0438\u043c\u044f'


def gr\u00fc\u00df():
    return '\u00e9'
''',
}

PROJECT_FILES['vfp_dyn.py'] = '''\
import sys

for _n in ('alpha_handler', 'beta_handler'):
    setattr(sys.modules[__name__], _n, len)
globals().update(gamma_table={})

static_name = 1
scratch_name = 2
del scratch_name


def static_func(a):
    return a
'''
PROJECT_FILES['vfp_alt/vfp_altmod.py'] = '''\
ALT_CONST = 7


def alt_func(x):
    return x


class AltThing(object):
    alt_attr = 1
'''
DYN_MODULES = ['vfp_dyn', 'json']
BAD_DYN = [5, True, {'$': 'float', 'v': 1.5}, [['vfp_dyn']], [{'k': 1}], [['vfp_dyn'], 'json']]

IMPORTS = [
    ('import vfp_a', ['vfp_a']),
    ('import vfp_pkg.mod', ['vfp_pkg']),
    ('from vfp_pkg.mod import Widget, build', ['Widget', 'build']),
    ('from vfp_pkg import mod as m', ['m']),
    ('from vfp_a import Thing, helper, CONST', ['Thing', 'helper', 'CONST']),
    ('from vfp_a import *', []),
    ('import os', ['os']),
    ('import json', ['json']),
    ('import vfp_dyn', ['vfp_dyn']),
    ('from vfp_dyn import static_name, alpha_handler', ['static_name', 'alpha_handler']),
    ('import os.path as osp', ['osp']),
    ('from json import dumps as jd', ['jd']),
    ('from vfp_pkg.sub import leaf', ['leaf']),
    ('from vfp_uni import gr\u00fc\u00df', ['gr\u00fc\u00df']),
    ('import vfp_missing', ['vfp_missing']),
    ('from vfp_a import nothing_here', ['nothing_here']),
]
VALUES = ['1', "'s'", '[1, 2]', '{}', 'None', 'Thing()', 'vfp_a.make()', 'vfp_a.CONST', 'Widget()', 'build()',
          'm.build()', 'helper(1)', 'jd(1)', 'leaf.LEAF', 'vfp_dyn.static_func(1)', 'vfp_dyn.gamma_table', "(1, 'a')", 'lambda q: q']


class SourceGen(object):
    """small Python sources: imports of the temp project, assignments, functions, classes"""

    def __init__(self, rng):
        self.r = rng
        self.lines = []
        self.names = []
        self.objs = []
        self.n = 0

    def fresh(self, p):
        self.n += 1
        return '%s%d' % (p, self.n)

    def name(self):
        r = self.r
        if self.names and r.random() < 0.85:
            return r.choice(self.names)
        return self.fresh('undef')

    def value(self):
        r = self.r
        v = r.choice(VALUES)
        if r.random() < 0.3:
            v = self.name()
        if r.random() < 0.2 and self.objs:
            v = '%s.%s' % (r.choice(self.objs), r.choice(['size', 'grow(1)', 'label', 'kind', 'double', 'nope']))
        return v

    def stmt(self, ind, depth=0):
        r = self.r
        k = r.choice(['assign', 'assign', 'assign', 'use', 'def', 'class', 'if', 'for', 'try', 'with', 'unpack', 'aug'])
        if depth >= 2 and k in ('def', 'class', 'if', 'for', 'try', 'with'):
            k = 'assign'
        L = self.lines
        if k == 'assign':
            n = self.fresh('v')
            val = self.value()
            L.append('%s%s = %s' % (ind, n, val))
            if not ind:
                self.names.append(n)
                if val in ('Thing()', 'vfp_a.make()', 'Widget()', 'build()', 'm.build()', 'leaf.LEAF'):
                    self.objs.append(n)
        elif k == 'unpack':
            a, b = self.fresh('v'), self.fresh('v')
            L.append('%s%s, %s = %s, %s' % (ind, a, b, self.value(), self.value()))
            if not ind:
                self.names += [a, b]
        elif k == 'aug':
            L.append('%s%s += 1' % (ind, self.name()))
        elif k == 'use':
            L.append('%sprint(%s, %s)' % (ind, self.name(), self.value()))
        elif k == 'def':
            f = self.fresh('f')
            params = r.choice(['', 'a', 'a, b=1', 'a, *args, **kw', 'self, x', 'a, b, c=None'])
            L.append('%sdef %s(%s):' % (ind, f, params))
            for _ in range(r.randint(1, 3)):
                self.stmt(ind + '    ', depth + 1)
            L.append('%s    return %s' % (ind, r.choice(['a', 'None', self.name(), '1']) if params else '0'))
            if not ind:
                self.names.append(f)
        elif k == 'class':
            c = self.fresh('C')
            base = r.choice(['object', 'Thing', 'Widget', 'vfp_a.Base', ''])
            L.append('%sclass %s%s:' % (ind, c, '(%s)' % base if base else ''))
            L.append('%s    attr_%s = %s' % (ind, c.lower(), self.value()))
            L.append('%s    def meth(self, x):' % ind)
            L.append('%s        self.field = x' % ind)
            L.append('%s        return self.%s' % (ind, r.choice(['field', 'size', 'attr_' + c.lower(), 'missing'])))
            if not ind:
                self.names.append(c)
        elif k == 'if':
            L.append('%sif %s:' % (ind, self.name()))
            self.stmt(ind + '    ', depth + 1)
            if r.random() < 0.5:
                L.append('%selse:' % ind)
                self.stmt(ind + '    ', depth + 1)
        elif k == 'for':
            L.append('%sfor %s in %s:' % (ind, self.fresh('i'), r.choice(['range(3)', 'vfp_a.NAMES', self.name()])))
            self.stmt(ind + '    ', depth + 1)
        elif k == 'try':
            L.append('%stry:' % ind)
            self.stmt(ind + '    ', depth + 1)
            L.append('%sexcept %s as %s:' % (ind, r.choice(['Exception', 'ValueError', '(KeyError, OSError)']), self.fresh('e')))
            self.stmt(ind + '    ', depth + 1)
        elif k == 'with':
            L.append('%swith open(%s) as %s:' % (ind, self.name(), self.fresh('fh')))
            self.stmt(ind + '    ', depth + 1)

    def build(self, token=None):
        r = self.r
        for text, names in r.sample(IMPORTS, r.randint(1, 5)):
            self.lines.append(text)
            self.names += names
        for _ in range(r.randint(2, 9)):
            self.stmt('')
        if token:
            self.lines.append('print(%s)' % token)
        return '\n'.join(self.lines) + '\n'


IDENT = re.compile(r'[^\W\d]\w*')
PROBES = ['vfp_a.', 'vfp_a.ma', 'vfp_a.Thing.', 'vfp_a.Thing().', 'm.', 'Widget().pa', 'Wid', 'v', '', 'jd',
          'from vfp_pkg import ', 'from vfp_pkg.mo', 'from vfp_pkg.sub import le', 'from vfp_a import Th',
          'import vfp_pkg.', 'leaf.LEAF.', 'build().', 'helper(', 'print(vfp_a.CO', 'gr', 'json.', 'json.du',
          'vfp_dyn.', 'vfp_dyn.al', 'from vfp_dyn import ']


def gen_api_request(rng, counter, files=('main.py', 'vfp_pkg/extra.py', 'other/dir/x.py')):
    """one well-formed lint / assist / location request over a generated source"""
    counter[0] += 1
    token = 'vf_tok_%d' % counter[0]
    g = SourceGen(rng)
    m = rng.choice(['lint', 'lint', 'assist', 'assist', 'location'])
    src = g.build(token if m == 'lint' else None)
    fn = path(rng.choice(files))
    if m == 'lint':
        s = src
        if rng.random() < 0.15:
            s = byt(src)
        spec = {'m': 'lint', 'args': [s, fn], 'cat': 'valid', 'kind': 'valid:lint', 'token': token}
        if rng.random() < 0.2:
            spec = {'m': 'lint', 'args': [], 'kwargs': {'source': s, 'filename': fn}, 'cat': 'valid',
                    'kind': 'valid:lint:kwargs', 'token': token}
        return spec
    lines = src.split('\n')
    if m == 'assist':
        probe = rng.choice(PROBES)
        objs = g.objs
        if objs and rng.random() < 0.4:
            probe = rng.choice(objs) + '.' + rng.choice(['', 's', 'gr', 'b'])
        at = len(lines) - 1
        lines.insert(at, probe)
        pos = (at + 1, len(probe))
        return {'m': 'assist', 'args': ['\n'.join(lines), rng.choice([tup(*pos), list(pos)]), fn],
                'cat': 'valid', 'kind': 'valid:assist'}
    cands = []
    for i, l in enumerate(lines):
        for mo in IDENT.finditer(l):
            cands.append((i + 1, mo.start() + rng.randint(0, len(mo.group()) - 1)))
    pos = rng.choice(cands) if cands else (1, 0)
    return {'m': 'location', 'args': [src, tup(*pos), fn], 'cat': 'valid', 'kind': 'valid:location'}


HOSTILE_SOURCES = [
    ('empty', ''), ('newline', '\n'), ('syntax-eq', 'x = = 1\n'), ('syntax-def', 'def f(:\n'),
    ('open-paren', 'x = (\n'), ('bad-indent', '\tx=1\n  y=2\n'), ('nul', 'x = 1\x00\n'),
    ('non-ascii', '\u00e9 = 1\nprint(\u00e9, \u4e2d)\n'), ('crlf', 'x = 1\r\ny = x\r\n'), ('formfeed', 'x = 1\x0cy = 2\nprint(y)\n'),
    ('py2-print', 'print "py2"\n'), ('module-return', 'return 5\n'), ('attr-for-target', 'for self.x in y: pass\n'),
    ('bare-import', 'import\n'), ('relative-outside', 'from . import nothing\n'), ('open-import', 'from vfp_pkg import (\n'),
    ('dunder-attr', 'class C:\n    pass\nC().__class__.\n'), ('bad-utf8-bytes', hexb('fffe')), ('utf8-bytes', byt('x = 1\nprint(x, \u00e9)\n')),
    ('yield-lambda', 'f = lambda: (yield)\n'), ('long-name', cat(rep('a', 3000), ' = 1\n')), ('parens30', cat(rep('(', 30), '1', rep(')', 30), '\n')),
    ('star-missing', 'from vfp_missing import *\nprint(zzz)\n'), ('locals', 'def f(a):\n    b = 1\n    return locals()\n'),
    ('global-nonlocal', 'def f():\n    x = 1\n    def g():\n        nonlocal x\n        x = 2\n    global y\n    y = 3\n'),
    ('walrus-match', 'if (n := 10) > 5:\n    match n:\n        case 10:\n            print(n)\n'),
]
HOSTILE_POSITIONS = [(0, 0), (1, 0), (1, 999), (999, 0), (-1, -1), (1, -5), (1 << 40, 0), (2, 1)]
HOSTILE_FILES = [None, '', 'relative.py', '/nonexistent/dir/x.py', path('vfp_pkg/__init__.py'), path(''),
                 path('\u0444\u0430\u0439\u043b.py')]


def gen_hostile_request(rng):
    tag, src = rng.choice(HOSTILE_SOURCES)
    m = rng.choice(['lint', 'assist', 'location'])
    fn = rng.choice(HOSTILE_FILES) if rng.random() < 0.5 else path('main.py')
    if m == 'lint':
        return {'m': 'lint', 'args': [src, fn], 'cat': 'hostile', 'kind': 'hostile:lint:' + tag}
    if rng.random() < 0.5:
        pos = rng.choice(HOSTILE_POSITIONS)
    else:
        pos = (rng.randint(1, 3), rng.randint(0, 8))
    return {'m': m, 'args': [src, tup(*pos), fn], 'cat': 'hostile', 'kind': 'hostile:%s:%s' % (m, tag)}


REAL_FILES = ['supp/util.py', 'supp/project.py', 'supp/remote.py', 'supp/linter.py', 'supp/assistant.py', 'tests/helpers.py',
              'supp/compat.py', 'supp/module.py']


def real_file_request(rng):
    """lint of a real file of the repository under its real path (relative imports resolve)"""
    rel = rng.choice(REAL_FILES)
    return {'m': 'lint', 'args': [{'$': 'repofile', 'rel': rel}, {'$': 'repopath', 'rel': rel}], 'cat': 'valid', 'kind': 'valid:lint:real-file'}


def configure_spec(rng=None):
    cfg = {'sources': [path('')]}
    if rng is not None:
        c = rng.random()
        if c < 0.15:
            cfg = {'sources': tup(path(''))}
        elif c < 0.25:
            cfg = {'sources': [path(''), path('vfp_pkg')], 'dyn_modules': ['json']}
        elif c < 0.32:
            cfg = {'sources': [path('')], 'dyn_modules': None}
        elif c < 0.5:
            cfg = {'sources': [path('')], 'dyn_modules': rng.choice([['vfp_dyn'], ['json'], ['vfp_dyn', 'json'], [], ['vfp_a']])}
    return {'m': 'configure', 'args': [cfg], 'cat': 'valid', 'kind': 'valid:configure'}


def through_module(rng, mod, counter):
    """a request whose answer goes through module `mod` (static analysis and run-time namespace differ)"""
    counter[0] += 1
    fn = path(rng.choice(['main.py', 'vfp_pkg/extra.py']))
    name = {'vfp_dyn': rng.choice(['static_name', 'alpha_handler', 'static_func', 'gamma_table', 'scratch_name']),
            'json': rng.choice(['dumps', 'JSONDecoder', 'decoder', 'loads'])}[mod]
    k = rng.randrange(6)
    if k == 0:
        src = 'import %s\n%s.' % (mod, mod)
        return {'m': 'assist', 'args': [src, tup(2, len(mod) + 1), fn], 'cat': 'valid', 'kind': 'valid:assist:through-module'}
    if k == 1:
        src = 'import %s\nx = 1\n%s.%s' % (mod, mod, name[:2])
        return {'m': 'assist', 'args': [src, tup(3, len(mod) + 3), fn], 'cat': 'valid', 'kind': 'valid:assist:through-module'}
    if k == 2:
        src = 'from %s import ' % mod
        return {'m': 'assist', 'args': [src, tup(1, len(src)), fn], 'cat': 'valid', 'kind': 'valid:assist:through-module'}
    if k == 3:
        src = 'from %s import %s\n%s' % (mod, name, name)
        return {'m': 'location', 'args': [src, tup(2, 3), fn], 'cat': 'valid', 'kind': 'valid:location:through-module'}
    if k == 4:
        src = 'import %s\n%s.%s' % (mod, mod, name)
        return {'m': 'location', 'args': [src, tup(2, len(mod) + 2), fn], 'cat': 'valid', 'kind': 'valid:location:through-module'}
    src = 'from %s import %s, nothing_%d\nprint(%s, vf_tok_%d)\n' % (mod, name, counter[0], name, counter[0])
    return {'m': 'lint', 'args': [src, fn], 'cat': 'valid', 'kind': 'valid:lint:through-module', 'token': 'vf_tok_%d' % counter[0]}


def root_dependent(rng, counter):
    """a request whose answer depends on the source roots of the session project"""
    counter[0] += 1
    mod, name = rng.choice([('vfp_altmod', 'alt_func'), ('vfp_altmod', 'AltThing'), ('vfp_a', 'Thing'), ('vfp_dyn', 'static_name')])
    fn = path('main.py')
    k = rng.randrange(4)
    if k == 0:
        src = 'import %s\n%s.' % (mod, mod)
        return {'m': 'assist', 'args': [src, tup(2, len(mod) + 1), fn], 'cat': 'valid', 'kind': 'valid:assist:root-dependent'}
    if k == 1:
        src = 'from %s import %s\n%s' % (mod, name, name)
        return {'m': 'location', 'args': [src, tup(2, 2), fn], 'cat': 'valid', 'kind': 'valid:location:root-dependent'}
    if k == 2:
        src = 'from %s import ' % mod
        return {'m': 'assist', 'args': [src, tup(1, len(src)), fn], 'cat': 'valid', 'kind': 'valid:assist:root-dependent'}
    src = 'from %s import *\nprint(%s, vf_tok_%d)\n' % (mod, name, counter[0])
    return {'m': 'lint', 'args': [src, fn], 'cat': 'valid', 'kind': 'valid:lint:root-dependent', 'token': 'vf_tok_%d' % counter[0]}


def failing_configure(rng, roots, current):
    """a configure request that must fail; where the failure is in dyn_modules the sources are
    valid and differ from the current ones"""
    other = rng.choice([x for x in range(len(roots)) if x != current])
    k = rng.randrange(6)
    if k <= 3:
        cfg = {'sources': roots[other], 'dyn_modules': rng.choice(BAD_DYN)}
        tag = 'bad-dyn-modules'
    elif k == 4:
        cfg = {'dyn_modules': ['vfp_dyn'], 'source': roots[other]}
        tag = 'missing-sources-key'
    else:
        cfg = rng.choice([5, None, [roots[other]], 'sources'])
        tag = 'config-not-a-dict'
    return {'m': 'configure', 'args': [cfg], 'cat': 'fault', 'kind': 'fault:failing-configure:' + tag, 'how': 'api', 'public': True}


def reconfigure_history(rng, counter):
    """several configure requests on one connection - same roots with a different dyn_modules
    membership of M (added / removed), the same configuration re-sent, different roots -
    each followed by requests that go through M"""
    mod = rng.choice(DYN_MODULES)
    roots = [[path('')], [path(''), path('vfp_pkg')], tup(path('')), [path('vfp_alt')], [path('vfp_alt'), path('')]]

    def cfg(r, dyn):
        c = {'sources': roots[r]}
        if dyn is not None:
            c['dyn_modules'] = dyn
        return {'m': 'configure', 'args': [c], 'cat': 'valid', 'kind': 'valid:configure'}
    with_m = lambda: rng.choice([[mod], [mod, 'vfp_a'] if mod != 'vfp_a' else [mod], DYN_MODULES[:]])
    without = lambda: rng.choice([None, [], ['vfp_a']])
    r = rng.choice([0, 0, 1, 3, 4])
    dyn = rng.random() < 0.5
    h = [cfg(r, with_m() if dyn else without())]
    steps = rng.randint(3, 6)
    flipped = False
    for i in range(steps):
        for _ in range(rng.randint(1, 3)):
            c = rng.random()
            h.append(through_module(rng, mod, counter) if c < 0.6 else root_dependent(rng, counter) if c < 0.8 else
                     gen_api_request(rng, counter) if c < 0.9 else rng.choice(FAULTS))
        kind = rng.choice(['flip', 'flip', 'same', 'roots', 'fail', 'fail']) if flipped or i < steps - 1 else 'flip'
        if kind == 'fail':
            # a configure that raises changes nothing: what follows is answered by the project of
            # the last successful configure
            h.append(failing_configure(rng, roots, r))
            h.append(root_dependent(rng, counter))
            h.append(through_module(rng, mod, counter))
            h.append(root_dependent(rng, counter))
            continue
        if kind == 'flip':
            dyn = not dyn
            flipped = True
        elif kind == 'roots':
            r = rng.choice([x for x in range(len(roots)) if x != r])
        h.append(cfg(r, with_m() if dyn else without()))
    for _ in range(3):
        h.append(through_module(rng, mod, counter))
    h.append(root_dependent(rng, counter))
    h += [echo_spec(counter), PID_SPEC]
    return h


def echo_spec(counter, payload=None, kind='valid:eval-echo'):
    """eval that returns a unique token (and the payload): checks request/reply pairing"""
    counter[0] += 1
    tok = 'T%d' % counter[0]
    if payload is None:
        src = "return '%s', (1, (2.5, None)), {'k': (True, b'x')}" % tok
        exp = tup(tok, tup(1, tup({'$': 'float', 'v': 2.5}, None)), {'k': tup(True, hexb('78'))})
    else:
        src = cat("return '%s', '" % tok, payload, "'")
        exp = tup(tok, payload)
    return {'m': 'eval', 'args': [src], 'cat': 'valid', 'kind': kind, 'expect': {'value': exp}}


PID_SPEC = {'m': 'eval', 'args': ['import os\nreturn os.getpid()'], 'cat': 'valid', 'kind': 'valid:eval-pid', 'expect': 'pid'}

# ---------------------------------------------------------------------------------------
# faults

NONASCII = 'gr\u00fc\u00df \u4e2d\u6587 \U0001f600'


def fault_specs():
    out = []

    def add(kind, m, args, kwargs=None, how='server-class', public=False, **extra):
        s = {'m': m, 'args': args, 'cat': 'fault', 'kind': 'fault:' + kind, 'how': how, 'public': public}
        if kwargs:
            s['kwargs'] = kwargs
        s.update(extra)
        out.append(s)
    good_src, good_fn = 'x = 1\nprint(x, y)\n', path('main.py')
    # unknown method: names that are not attributes of the server object
    for name in ['nosuch', '', 'Lint', 'get_docstring', 'lint ', 'conn.close', 'evaluate', '\u043c\u0435\u0442\u043e\u0434', 5, None]:
        add('unknown-method:%s' % (type(name).__name__ if not isinstance(name, str) else 'str'), name, [good_src, good_fn])
    # wrong arity
    add('wrong-arity:lint:0', 'lint', [])
    add('wrong-arity:lint:4', 'lint', [good_src, good_fn, False, 1])
    add('wrong-arity:lint:kw', 'lint', [good_src, good_fn], {'bogus': 1})
    add('wrong-arity:lint:dup', 'lint', [good_src, good_fn], {'source': good_src})
    add('wrong-arity:assist:1', 'assist', [good_src])
    add('wrong-arity:assist:4', 'assist', [good_src, tup(1, 1), good_fn, 0])
    add('wrong-arity:location:2', 'location', [good_src, tup(1, 1)])
    add('wrong-arity:eval:0', 'eval', [])
    add('wrong-arity:eval:2', 'eval', ['return 1', 'b'])
    add('wrong-arity:configure:0', 'configure', [])
    add('wrong-arity:configure:2', 'configure', [{'sources': [path('')]}, 1])
    # wrong types
    add('wrong-types:assist:position-int', 'assist', [good_src, 5, good_fn], public=True)
    add('wrong-types:assist:position-none', 'assist', [good_src, None, good_fn], public=True)
    add('wrong-types:location:position-str', 'location', [good_src, 'ab', good_fn], public=True)
    add('wrong-types:location:position-3', 'location', [good_src, tup(1, 1, 1), good_fn], public=True)
    add('wrong-types:assist:position-float', 'assist', [good_src, tup({'$': 'float', 'v': 1.0}, {'$': 'float', 'v': 0.0}), good_fn], public=True)
    add('wrong-types:lint:source-none', 'lint', [None, good_fn], public=True)
    add('wrong-types:lint:source-int', 'lint', [7, good_fn], public=True)
    add('wrong-types:lint:source-list', 'lint', [['x = 1'], good_fn], public=True)
    add('wrong-types:assist:source-dict', 'assist', [{'a': 1}, tup(1, 0), good_fn], public=True)
    add('wrong-types:lint:filename-int', 'lint', [good_src, 5], public=True)
    add('wrong-types:location:filename-list', 'location', [good_src, tup(1, 0), [1, 2]], public=True)
    add('wrong-types:eval:source-int', 'eval', [1], public=True)
    add('wrong-types:eval:source-none', 'eval', [None], public=True)
    add('wrong-types:configure:int', 'configure', [1], public=True, how='api')
    add('wrong-types:configure:empty-dict', 'configure', [{}], public=True, how='api')
    add('wrong-types:configure:list', 'configure', [['sources']], public=True, how='api')
    add('wrong-types:configure:dyn-int', 'configure', [{'sources': [path('vfp_alt')], 'dyn_modules': 5}], public=True, how='api')
    add('wrong-types:configure:dyn-nested-list', 'configure', [{'sources': [path('vfp_alt'), path('')], 'dyn_modules': [['vfp_dyn']]}], public=True, how='api')
    # eval raising Exception subclasses
    raising = [
        ('Exception', "raise Exception('plain')"), ('Exception-empty', 'raise Exception()'),
        ('Exception-args', "raise Exception(1, 'two', (3,))"), ('ValueError', "raise ValueError('bad value')"),
        ('KeyError', "raise KeyError('k')"), ('KeyError-real', "return {}['missing']"), ('IndexError', 'return [][3]'),
        ('TypeError', "return 1 + 'a'"), ('AttributeError', 'return None.nothing'), ('NameError', 'return undefined_name_here'),
        ('ZeroDivisionError', 'return 1 / 0'), ('AssertionError', "assert False, 'asserted'"), ('RuntimeError', "raise RuntimeError('rt')"),
        ('RecursionError', 'def f(n):\n    return f(n + 1)\nreturn f(0)'), ('MemoryError', "raise MemoryError('out of memory')"),
        ('MemoryError-real', "return 'a' * (1 << 62)"), ('OverflowError', 'return 2.0 ** 10000'),
        ('UnicodeError', "raise UnicodeError('%s')" % NONASCII), ('UnicodeDecodeError', "return b'\\xff\\xfe'.decode('utf-8')"),
        ('UnicodeEncodeError', "return '\\udcff'.encode('utf-8')"), ('OSError', "raise OSError(2, 'No such file', 'name')"),
        ('FileNotFoundError-real', "return open('/nonexistent/vf/c15')"), ('StopIteration', 'return next(iter(()))'),
        ('ImportError', 'import vfp_not_there_at_all'), ('SyntaxError', 'x = = 1'), ('IndentationError', ''),
        ('custom-subclass', "class Boom(ValueError):\n    def __str__(self):\n        return 'custom %s' % (self.args,)\nraise Boom(1, 2)"),
        ('nonascii-ValueError', "raise ValueError('%s')" % NONASCII), ('surrogate-message', "raise ValueError('lone \\udcff surrogate')"),
        ('multiline-message', "raise ValueError('line1\\nline2\\r\\n\\ttabbed')"),
        ('big-message-64k', cat("raise ValueError('", rep('m', 65536), "')")),
        ('NotImplementedError', 'raise NotImplementedError'), ('LookupError-chained', "try:\n    return {}['a']\nexcept KeyError as e:\n    raise LookupError('outer') from e"),
        ('ExceptionGroup', "raise ExceptionGroup('grp', [ValueError(1), TypeError(2)])"),
    ]
    for tag, src in raising:
        add('eval-raises:' + tag, 'eval', [src], how='api', public=True)
    # eval returning results that cannot be serialised
    unser = [
        ('object', 'return object()'), ('set', 'return {1, 2}'), ('frozenset', 'return frozenset([1])'), ('int-2^64', 'return 2 ** 64'),
        ('int-neg-2^63-1', 'return -2 ** 63 - 1'), ('deep-list-5000', 'x = []\nfor i in range(5000):\n    x = [x]\nreturn x'),
        ('deep-dict-3000', 'x = {}\nfor i in range(3000):\n    x = {1: x}\nreturn x'), ('lambda', 'return lambda: 1'),
        ('complex', 'return 1j'), ('range', 'return range(3)'), ('instance', 'class K: pass\nreturn K()'),
        ('nested-object', "return [1, {'a': (2, object())}]"), ('nested-big-int', "return {'k': [1 << 70]}"),
        ('surrogate-str', "return 'a\\udcffb'"), ('module', 'import os\nreturn os'), ('generator', 'return (i for i in range(3))'),
        ('bytearray', "return bytearray(b'ab')"), ('dict-object-key', 'return {object(): 1}'),
    ]
    for tag, src in unser:
        add('unserialisable:' + tag, 'eval', [src], how='api', public=True)
    # a send error on the server side (the reply is delivered first, then send_bytes raises once)
    add('send-error', 'eval', [
        "import sys\nc = sys.modules['__main__'].conn\norig = c.send_bytes\n"
        "def once(data):\n    del c.send_bytes\n    orig(data)\n    raise OSError('vf injected send error')\n"
        "c.send_bytes = once\nreturn 'armed'"], how='api', public=True, expect={'value': 'armed'})
    return out


FAULTS = fault_specs()
BEFORE_CONFIGURE = [
    {'m': 'lint', 'args': ['x = 1\n', path('main.py')], 'cat': 'fault', 'kind': 'fault:before-configure:lint', 'how': 'server-class'},
    {'m': 'assist', 'args': ['x = 1\nx', tup(2, 1), path('main.py')], 'cat': 'fault', 'kind': 'fault:before-configure:assist', 'how': 'server-class'},
    {'m': 'location', 'args': ['x = 1\nx', tup(2, 0), path('main.py')], 'cat': 'fault', 'kind': 'fault:before-configure:location', 'how': 'server-class'},
]
# exotic: an exception whose __str__ itself raises -- the server has no message to carry
BROKEN_STR = {'m': 'eval', 'args': ["class Bad(Exception):\n    def __str__(self):\n        raise RuntimeError('no str')\nraise Bad()"],
              'cat': 'fault', 'kind': 'fault:eval-raises:broken-str', 'how': 'api', 'public': True, 'expect': 'any-exception'}


def coarse(kind):
    """mechanism-level name of a request kind (used in labels): at most three components"""
    p = kind.split(':')
    if p[0] == 'fault':
        return ':'.join(p[1:3])
    return ':'.join(p[:3] if p[0] == 'hostile' else p[:2])


def family(kind):
    p = kind.split(':')
    return ':'.join(p[:2])


# ---------------------------------------------------------------------------------------
# running one session (one server) against the mirror

class Stop(Exception):
    pass


class Tolerated(Exception):
    pass


class Runner(object):
    def __init__(self, part, files, meta):
        self.p = part
        self.files = files
        self.meta = meta
        self.table = []          # distinct specs sent so far (for the replay case)
        self.index = {}
        self.sent = []           # indices into table, in order
        self.root = self.base = None
        self.sess = None
        self.mirror = None
        self.pid = None
        self.prev = None         # (spec, expected outcome) of the previous request
        self.tolerate = None
        self.slow_failed = False
        self.Ext = None
        self.hist_reconf = set()
        self.hist_cfg_seen = 0
        self.failed_configure = False
        self.hist_failed_cfg = False
        self.config = None       # last well-formed configuration sent (resolved)
        self.reconf = None       # how it relates to the one before: same-config / same-roots-dyn-change / different-roots

    # -- bookkeeping -----------------------------------------------------------------
    def _note(self, spec):
        key = json.dumps(spec, sort_keys=True)
        i = self.index.get(key)
        if i is None:
            i = self.index[key] = len(self.table)
            self.table.append(spec)
        self.sent.append(i)

    def case(self):
        return {'files': self.files, 'specs': self.table, 'sent': list(self.sent), 'meta': self.meta}

    def violation(self, mech, what, content=False):
        """content=True: a discrepancy in what the reply says (as opposed to liveness, identity,
        framing); not raised when the in-process answer is known not to be a function of the request"""
        if content and self.tolerate:
            raise Tolerated(self.tolerate)
        if content and self.failed_configure:
            mech = re.sub(r':after=failing-configure(:[\w-]+)?', '', mech) + ':after-failed-configure'
            what += ' [a configure request failed since the last successful one: it must not have changed the session project]'
        elif content and self.reconf == 'same-roots-dyn-change':
            mech += ':reconfigured=same-roots-dyn-change'
            what += ' [project configured by a configure request naming the same roots as the one before with other dyn_modules]'
        self.p.violation(mech, what, self.case())
        raise Stop(mech)

    def soft_violation(self, mech, what):
        """recorded, but the session goes on so that the consequences for later replies are observed too"""
        self.p.violation(mech, what, self.case())

    # -- life cycle ------------------------------------------------------------------
    def open(self):
        from supp import umsgpack
        self.Ext = umsgpack.Ext
        self.base = tempfile.mkdtemp(prefix='vf-c15-')
        self.root = os.path.join(self.base, 'proj')
        self.logfile = os.path.join(self.base, 'server.log')
        for rel, text in self.files.items():
            f = os.path.join(self.root, rel)
            os.makedirs(os.path.dirname(f), exist_ok=True)
            with open(f, 'w', encoding='utf-8') as fh:
                fh.write(text)
        self.mirror = ru.Mirror()
        import sys
        if self.root not in sys.path:
            at = max([i for i, e in enumerate(sys.path) if os.path.abspath(e or '.') in (core.REPO, core.VERIF)] or [-1]) + 1
            sys.path.insert(at, self.root)
        # launch + connect (Environment.run gives the child 5 s); a server that cannot be started
        # on a busy machine decides nothing
        err = None
        for attempt in range(4):
            # the project root is importable in both processes (dyn_modules are imported for real)
            if self.meta.get('no_logfile'):
                # the server logs to whatever stderr it is given
                os.environ.pop('SUPP_LOG_FILE', None)
            self.sess = ru.Session(logfile=None if self.meta.get('no_logfile') else self.logfile, env={'PYTHONPATH': os.pathsep.join(
                [os.environ.get('PYTHONPATH', core.REPO + os.pathsep + core.VERIF), self.root])},
                clock_jump=bool(self.meta.get('clock_jump')))
            try:
                self.sess.start()
                self.pid = self.sess.env.proc.pid
                err = None
                break
            except Exception as e:
                err = e
                self.sess.kill()
                self.p.count('server_launch_retries')
        if err is not None:
            self.p.inconclusive.append('server did not start: %r' % (err,))
            raise Stop('no-server')
        # which tree does the child run?  (asked through the transport, so only believed when it
        # answers; the checked request below then has a fully known expected reply)
        try:
            out = self.sess.call('eval', ['import supp\nreturn supp.__file__'], {})
        except ru.Hung:
            out = ('broken', 'Hung', '')
        if out[0] == 'broken':
            self.p.inconclusive.append('server did not answer the first request: %r' % (out,))
            raise Stop('no-server')
        init = os.path.join(core.REPO, 'supp', '__init__.py')
        if out[0] == 'ok' and isinstance(out[1], str) and os.path.abspath(out[1]) != init:
            self.p.inconclusive.append('server runs supp from %s, not %s' % (out[1], core.REPO))
            raise Stop('wrong-tree')
        self._step({'m': 'eval', 'args': ['import supp, os\nreturn supp.__file__, os.getpid()'], 'cat': 'valid',
                    'kind': 'valid:eval-start', 'expect': {'value': [init, self.pid]}}, note=False)
        self.p.count('servers_started')

    def close(self):
        try:
            if self.sess is not None:
                self.sess.kill()
                if self.pid is not None:
                    self.p.count('sessions_with_clock_jump_proxy' if self.sess.clock_jump else 'sessions_with_truthful_proxy')
                    self.p.count('client_poll_calls_observed', self.sess.conn_stats['poll_calls'])
                    self.p.count('client_poll_timeouts_cut_short', self.sess.conn_stats['poll_timeouts_cut_short'])
            self.read_server_log()
        finally:
            if self.base:
                shutil.rmtree(self.base, ignore_errors=True)

    def end_with_close(self):
        """after a long session: close() has to end the server (it is the server that must still be
        listening; what close() does on the client side is C16's business)"""
        import time
        env, proc = self.sess.env, self.sess.env.proc
        try:
            env.close()
        except Exception as e:
            self.p.count('close_raised_on_this_tree:%s' % type(e).__name__)
            return
        t = time.time()
        while proc.poll() is None and time.time() - t < 30:
            time.sleep(0.05)
        if proc.poll() is not None:
            self.p.count('servers_ended_by_close')
            self.p.hist('exit_code_after_close', proc.poll())
            return
        info = ru.blocked_state(proc)
        if info.get('blocked_on_pipe_write'):
            self.p.violation('close-ignored:server-blocked-writing-undrained-stdio-pipe',
                             'server pid %s still alive 30 s after close(): state %s, wchan %s, stdout=%s stderr=%s' % (
                                 proc.pid, info.get('state'), info.get('wchan'), info.get('fd1'), info.get('fd2')), self.case())
            raise Stop('close')
        self.p.inconclusive.append('server still alive 30 s after close() (kernel state %s)' % json.dumps(info))

    def read_server_log(self):
        """what the server itself wrote down (SUPP_LOG_FILE): evidence only, no verdict"""
        try:
            with open(self.logfile, errors='replace') as f:
                for line in f:
                    if ' server ERROR: ' in line:
                        self.p.count('server_log:send_errors' if line.rstrip().endswith('Send error') else
                                     'server_log:request_errors')
        except OSError:
            pass

    def note_configure(self, cfg):
        new = (list(cfg['sources']), sorted(cfg.get('dyn_modules') or []))
        old, self.config = self.config, new
        if old is None:
            self.reconf = None
        elif old == new:
            self.reconf = 'same-config'
        elif old[0] == new[0]:
            self.reconf = 'same-roots-dyn-change'
        else:
            self.reconf = 'different-roots'
        if self.reconf:
            self.p.count('reconfigure_steps:' + self.reconf)
            if self.hist_cfg_seen:
                # both configure requests belong to this history
                self.hist_reconf.add(self.reconf)
        self.hist_cfg_seen += 1

    # -- one request -----------------------------------------------------------------
    def step(self, spec):
        try:
            return self._step(spec)
        except Tolerated as t:
            self.p.count('filtered_out:' + str(t))
            self.p.hist('filtered_out_by_kind', family(spec['kind']))
            return ('skip', None)

    def _step(self, spec, note=True):
        p = self.p
        if note:
            self._note(spec)
        self.tolerate = None
        name = spec['m']
        if name in ru.NEVER_SEND:
            raise AssertionError('plumbing name %r must not be sent' % (name,))
        args = ru.resolve(spec.get('args', []), self.root)
        kwargs = ru.resolve(spec.get('kwargs', {}), self.root)
        kind = spec['kind']
        ck = coarse(kind)
        if kind == 'valid:configure':
            self.note_configure(args[0])
            self.failed_configure = False
        p.count('requests')
        p.hist('request_kind', family(kind))
        # expected outcome
        expect = spec.get('expect')
        if isinstance(expect, dict) and 'value' in expect:
            exp = ('ok', ru.resolve(expect['value'], self.root))
        elif expect == 'pid':
            exp = ('ok', self.pid)
        elif expect == 'any-exception':
            exp = ('exc', None)
        else:
            exp = self.mirror.run(name, args, kwargs, spec.get('how', 'api'))
            p.count('mirror_evaluations')
            if self.mirror.env_dependent:
                # top-level package listing = contents of sys.modules/sys.path of the answering process
                self.tolerate = 'reply_lists_process_wide_packages'
            elif self.mirror.address_ordered:
                # alternatives ordered by object address took part (supp.name.MultiName): the in-process
                # answer need not be a function of the request (C17's business); a difference decides nothing
                self.tolerate = 'differs_and_address_ordered_alternatives_took_part'
                p.count('replies_with_address_ordered_alternatives')
        if exp[0] == 'ok':
            try:
                exp = ('ok', ru.canon(exp[1], self.Ext))
            except ru.Unserialisable:
                exp = ('exc', 'Serialize error')
        elif exp[1] is not None:
            try:
                ru.canon(exp[1])
            except ru.Unserialisable:
                exp = ('exc', 'Serialize error')
        if name == 'configure' and exp[0] == 'exc':
            self.failed_configure = True
            self.hist_failed_cfg = True
            p.count('failing_configure_steps')
        # the real thing
        try:
            obs = self.sess.call(name, args, kwargs, public=spec.get('public', True), watchdog=spec.get('watchdog', ru.WATCHDOG_S))
        except ru.Hung:
            p.count('watchdog_fired')
            info = self.sess.hang_info or {}
            if info.get('blocked_on_pipe_write'):
                # not slow: the kernel shows the server asleep inside a write to its own stdout/stderr pipe
                # that nobody reads - this request (and every later one) will never be answered
                self.violation('request-never-answered:server-blocked-writing-undrained-stdio-pipe',
                               'no reply to a %s request (#%d of the session): server pid %s alive, state %s, wchan %s, stdout=%s stderr=%s' % (
                                   ck, len(self.sent), self.pid, info.get('state'), info.get('wchan'), info.get('fd1'), info.get('fd2')))
            p.inconclusive.append('no reply within %d s to a %s request (server killed by the watchdog; kernel state %s)' % (
                spec.get('watchdog', ru.WATCHDOG_S), ck, json.dumps(info)))
            raise Stop('hung')
        sb, rb = self.sess.last_bytes
        if sb is not None:
            p.hist('request_bytes_log2', sb.bit_length())
        if rb is not None:
            p.hist('reply_bytes_log2', rb.bit_length())
        prev, self.prev = self.prev, (spec, exp)
        pk = coarse(prev[0]['kind']) if prev else 'start'
        where = '%s request (after %s)' % (ck, pk)
        # liveness and identity of the server
        if obs[0] == 'broken':
            rc = self.sess.exit_code()
            if rc is not None or not self.sess.alive():
                # no reply: the server died while processing this request or right after the previous reply
                by = ck if spec['cat'] == 'fault' or not (prev and prev[0]['cat'] == 'fault') else pk
                self.violation('server-terminated:by=%s' % by,
                               'server process exited (rc=%s) - client got %s(%s) on a %s' % (rc, obs[1], ru.describe(obs[2], 80), where))
            if spec['cat'] == 'slow':
                self.soft_violation('slow-request-reported-as-error', 'client raised %s(%s) for a request the server answers after %s s '
                                    '(in-process value %s); server still alive' % (obs[1], ru.describe(obs[2], 100), spec.get('seconds'), ru.describe(exp[1], 80)))
                self.slow_failed = True
                return ('exc', obs[2])
            self.violation('client-raised:%s:at=%s' % (obs[1], ck), 'client raised %s(%s) instead of a reply/Exception on a %s' % (
                obs[1], ru.describe(obs[2], 120), where))
        if self.sess.wire != (1, 1):
            self.violation('wire-count', 'client serialised %d and parsed %d messages for one %s' % (self.sess.wire + (where,)))
        if self.sess.env.proc.pid != self.pid:
            self.violation('server-pid-changed:after=%s' % pk, 'child pid changed from %s to %s' % (self.pid, self.sess.env.proc.pid))
        if not self.sess.alive():
            self.violation('server-terminated:by=%s' % ck, 'server exited rc=%s right after replying to a %s' % (
                self.sess.env.proc.poll(), where))
        p.count('liveness_checks')
        # the reply
        p.count('replies_compared')
        after = (':after=' + pk) if prev and prev[0]['cat'] == 'fault' else ''
        if exp[0] == 'ok':
            if obs[0] == 'exc' and spec['cat'] == 'slow':
                self.soft_violation('slow-request-reported-as-error', '%s: remote raised Exception(%s) for a request the server answers after %s s' % (
                    where, ru.describe(obs[1], 100), spec.get('seconds')))
                self.slow_failed = True
                return ('exc', obs[1])
            if obs[0] == 'exc':
                if obs[1] == 'Serialize error':
                    self.violation('result-not-serialised:%s%s' % (ck, after), '%s: server could not serialise a result the in-process API returns as %s' % (
                        where, ru.describe(exp[1])), content=True)
                self.violation('ok-reported-as-error:%s%s' % (ck, after), '%s: in-process call returns %s, remote raised Exception(%s)' % (
                    where, ru.describe(exp[1]), ru.describe(obs[1])), content=True)
            try:
                got = ru.canon(obs[1], self.Ext)
            except ru.Unserialisable as e:
                self.violation('reply-alien-type:%s' % ck, '%s: reply holds a value outside the data model (%s)' % (where, e))
            if got != exp[1]:
                if prev and prev[1][0] == 'ok' and got == prev[1][1] and prev[1][1] != exp[1]:
                    if prev[0]['cat'] == 'slow':
                        self.violation('reply-pairing-shifted-after-slow-request', '%s: got the reply that belongs to the preceding %s s request; '
                                       'every later reply is one step behind' % (where, prev[0].get('seconds')))
                    self.violation('reply-shifted:after=%s' % pk, '%s: got the reply that belongs to the previous request' % where, content=True)
                if name == 'lint' and got[0] == 'arr' and any(r[0] == 'arr' and len(r[1]) != 4 for r in got[1]):
                    self.violation('lint-row-width', '%s: lint rows are not cut to 4 fields: %s' % (where, ru.describe(obs[1])))
                self.violation('reply-differs:%s%s' % (ck, after), '%s: remote %s != in-process %s' % (
                    where, ru.describe(obs[1]), ru.describe(exp[1])), content=True)
            p.count('ok_replies_equal')
            if spec['cat'] == 'slow':
                p.count('slow_requests_answered')
                p.hist('slow_request_seconds', spec.get('seconds'))
            if spec.get('token') or kind.startswith('valid:eval') or kind.startswith('payload:'):
                p.count('pairing_tokens_checked')
            return ('ok', got)
        # expected an exception
        if obs[0] == 'ok':
            self.violation('error-reported-as-ok:%s' % ck, '%s: in-process raises %s, remote returned %s' % (
                where, ru.describe(exp[1]), ru.describe(obs[1])), content=True)
        if exp[1] is not None and ru.mask(obs[1]) != ru.mask(exp[1]):
            if obs[1] == 'Serialize error':
                self.violation('error-not-serialised:%s' % ck, '%s: error reply for message %s could not be serialised' % (where, ru.describe(exp[1])), content=True)
            self.violation('error-message-differs:%s' % ck, '%s: remote message %s, server-side str(e) is %s' % (
                where, ru.describe(obs[1]), ru.describe(exp[1])), content=True)
        p.count('error_replies_equal')
        p.hist('errors_surfaced', family(kind))
        if exp[1] == 'Serialize error':
            p.count('serialize_error_fallbacks')
        return ('exc', obs[1])

    def history(self, specs, key):
        """one case: a history of requests; non-trivial if a failing request surfaced as an
        exception and a later request's non-empty reply still matched the mirror"""
        failed = False
        recovered = False
        trace = []
        self.hist_reconf = set()
        self.hist_cfg_seen = 0
        self.hist_failed_cfg = False
        for spec in specs:
            out = self.step(spec)
            if out[0] in ('ok', 'exc') and spec['kind'].endswith(':through-module') and self.reconf:
                self.p.count('replies_through_M_compared_after:' + self.reconf)
            if out[0] in ('ok', 'exc') and self.failed_configure and spec['m'] in ('lint', 'assist', 'location') and spec['cat'] != 'fault':
                self.p.count('project_dependent_replies_compared_after_failed_configure')
            trace.append('%s -> %s' % (coarse(spec['kind']), out[0] if out[0] != 'exc' else 'Exception(%s)' % ru.describe(out[1], 60)))
            if out[0] == 'exc':
                failed = True
            elif out[0] == 'ok' and failed and out[1] not in (('nil',), ('arr', ())):
                recovered = True
        self.p.hist('history_len', min(len(specs), 64))
        self.p.count('histories')
        if self.hist_reconf:
            self.p.count('histories_with_reconfigure')
        if 'same-roots-dyn-change' in self.hist_reconf:
            self.p.count('histories_with_dyn_modules_change')
        if self.hist_failed_cfg:
            self.p.count('histories_with_failing_configure')
        self.p.case(key, nontrivial=failed and recovered)
        if failed and recovered and len(specs) <= 12:
            self.p.sample({'history': trace, 'server_pid': self.pid}, limit=1)
        return failed, recovered


def run_session(part, histories, meta, files=None):
    """histories: list of (key, [spec, ...]).  One server for all of them."""
    r = Runner(part, files or PROJECT_FILES, meta)
    try:
        r.open()
        for key, specs in histories:
            r.history(specs, key)
        # the log at the client boundary: call i is followed by return i, nothing interleaves
        log = r.sess.log
        ok = len(log) % 2 == 0 and all(log[i][0] == 'call' and log[i + 1][0] == 'return' and log[i][1] == log[i + 1][1]
                                       for i in range(0, len(log), 2))
        if not ok:
            part.violation('log-not-paired', 'client call/return log is not strictly alternating', r.case())
        if meta.get('end_with_close'):
            r.end_with_close()
        part.count('sessions_completed')
    except Stop:
        part.count('sessions_stopped_early')
    finally:
        r.close()
    return r


def merge_part(part, d):
    for k, v in d.get('counters', {}).items():
        part.counters[k] += v
    for h, c in d.get('hists', {}).items():
        for k, v in c.items():
            part.hist(h, k, v)
    for x in d.get('samples', []):
        part.sample(x)
    part.violations.extend(d.get('violations', []))
    part.nontrivial.extend(d.get('nontrivial', []))
    part.evaluations += d.get('evaluations', 0)
    part.inconclusive.extend(d.get('inconclusive', []))


def isolated_session(part, histories, meta, files=None):
    """Run one session in a forked child that has never run any supp analysis, so that the
    mirror's process has the same request history as the server's process and nothing else
    (some of supp's answers depend on the process, e.g. alternatives ordered by object
    address: a mirror living in a long-running worker would drift further from the server)."""
    import traceback
    r, w = os.pipe()
    pid = os.fork()
    if pid == 0:
        try:
            os.close(r)
            sub = core.Part()
            try:
                run_session(sub, histories, meta, files)
            except BaseException:
                sub.inconclusive.append('session crashed in the harness: ' + traceback.format_exc()[-1500:])
            with os.fdopen(w, 'w') as f:
                json.dump(sub.dump(), f, default=str)
        finally:
            os._exit(0)
    os.close(w)
    with os.fdopen(r) as f:
        data = f.read()
    os.waitpid(pid, 0)
    if not data:
        part.inconclusive.append('session child died without a result (%s)' % json.dumps(meta))
        return
    merge_part(part, json.loads(data))


# ---------------------------------------------------------------------------------------
# workloads

def base_history(rng, counter, n=None):
    n = n or rng.randint(5, 7)
    h = [configure_spec(rng)]
    while len(h) < n:
        c = rng.random()
        if c < 0.65:
            h.append(gen_api_request(rng, counter))
        elif c < 0.85:
            h.append(echo_spec(counter, rep('p', rng.choice([0, 1, 31, 32, 200]))))
        else:
            h.append(gen_hostile_request(rng))
    return h


def fault_variants(base, faults, counter):
    """the base history with one fault inserted at every index, followed by a token echo"""
    out = []
    for f in faults:
        for i in range(len(base) + 1):
            h = base[:i] + [f] + base[i:] + [echo_spec(counter), PID_SPEC]
            out.append((f['kind'], i, h))
    return out


def long_history(rng, counter):
    n = rng.randint(5, 60)
    h = []
    if rng.random() < 0.8:
        h.append(configure_spec(rng))
    while len(h) < n:
        c = rng.random()
        if c < 0.45:
            h.append(gen_api_request(rng, counter))
        elif c < 0.57:
            h.append(gen_hostile_request(rng))
        elif c < 0.6:
            h.append(real_file_request(rng))
        elif c < 0.85:
            h.append(rng.choice(FAULTS))
        elif c < 0.93:
            h.append(echo_spec(counter, rep(rng.choice(['p', '\u00e9', '\u4e2d'] if rng.random() < 0.3 else ['p']),
                                            rng.choice([0, 1, 31, 32, 255, 256, 4000, 65535, 65536]))))
        elif c < 0.97:
            h.append(configure_spec(rng))
        else:
            h.append(PID_SPEC)
    h.append(echo_spec(counter))
    return h


SIZES = [0, 1, 31, 32, 65535, 65536, 65537, 1 << 20, 8 << 20]
SLOW_QUICK = [0.5, 2, 6.5]
SLOW_THOROUGH = [0.5, 2, 6.5, 11, 16]
JUMP_SLEEPS = [0.3, 0.6, 1.0]


def slow_spec(d, counter):
    """a request the server needs d seconds for (the sleep is workload; the verdict is still
    reply == expected value, and the replies after it must still pair with their requests)"""
    counter[0] += 1
    tok = 'S%d' % counter[0]
    return {'m': 'eval', 'args': ["import time\ntime.sleep(%r)\nreturn '%s', 'slept', %r" % (d, tok, d)], 'cat': 'slow',
            'kind': 'slow:eval-sleep:%s' % d, 'expect': {'value': tup(tok, 'slept', {'$': 'float', 'v': d} if isinstance(d, float) else d)},
            'seconds': d}


def slow_history(d, counter, rng):
    h = [configure_spec(), echo_spec(counter), gen_api_request(rng, counter), slow_spec(d, counter), echo_spec(counter)]
    while True:
        r = gen_api_request(rng, counter)
        if r['m'] == 'lint':
            break
    h += [r, rng_free_fault('unknown-method:str'), echo_spec(counter, rep('p', 200))]
    while True:
        r = gen_api_request(rng, counter)
        if r['m'] == 'assist':
            break
    h += [r, echo_spec(counter), PID_SPEC]
    return h


def payload_history(size, counter, big_lint=True):
    """payload of `size` bytes in both directions through eval, through an error message and
    through lint (request: large source; reply: many rows), faults in between"""
    tag = 'payload:%d' % size
    h = [configure_spec()]
    h.append(echo_spec(counter, rep('a', size), kind='payload:eval-echo'))
    h.append({'m': 'eval', 'args': ["return 'b' * %d" % size], 'cat': 'valid', 'kind': 'payload:eval-reply',
              'expect': {'value': rep('b', size)}})
    h.append(FAULTS[0])
    h.append({'m': 'eval', 'args': [cat("x = '", rep('c', size), "'\nreturn len(x)")], 'cat': 'valid', 'kind': 'payload:eval-request',
              'expect': {'value': size}})
    # 2-byte characters: size counts bytes on the wire
    h.append(echo_spec(counter, rep('\u00e9', size // 2), kind='payload:eval-echo-utf8'))
    if size <= 1 << 20:
        h.append({'m': 'eval', 'args': [cat("raise ValueError('", rep('m', size), "')")], 'cat': 'fault',
                  'kind': 'fault:eval-raises:message-%d' % size, 'how': 'api'})
    h.append(echo_spec(counter))
    if big_lint:
        # large request, small reply: a comment of `size` bytes between two real statements
        h.append({'m': 'lint', 'args': [cat('import os\n#', rep('z', size), '\nprint(undefined_tail)\n'), path('main.py')],
                  'cat': 'valid', 'kind': 'payload:lint-large-source', 'token': tag})
        h.append({'m': 'lint', 'args': [byt(cat("s = '", rep('q', size), "'\nprint(s, undefined_tail2)\n")), path('main.py')],
                  'cat': 'valid', 'kind': 'payload:lint-large-bytes-source', 'token': tag})
        # large reply: one row per undefined name, about 40 bytes per row on the wire
        rows = min(size // 40, 30000)
        if rows:
            h.append({'m': 'lint', 'args': [cat(rep('print(undefined_name_x)\n', 24 * rows)), path('main.py')],
                      'cat': 'valid', 'kind': 'payload:lint-large-reply', 'token': tag, 'watchdog': 300})
    h.append(rng_free_fault('unserialisable:set'))
    h.append(echo_spec(counter))
    h.append(PID_SPEC)
    return h


def long_failing_history(rng, counter, n, big):
    """several hundred failing requests in one session, then normal ones"""
    ordinary = [f for f in FAULTS if f['m'] != 'configure' and 'send-error' not in f['kind'] and 'big-message' not in f['kind']]
    h = [configure_spec(), echo_spec(counter)]
    for i in range(n):
        counter[0] += 1
        if big or rng.random() < 0.3:
            k = rng.randint(1000, 2000)
            h.append({'m': 'eval', 'args': ["raise ValueError('F%d:' + 'x' * %d)" % (counter[0], k)], 'cat': 'fault',
                      'kind': 'fault:eval-raises:message-1-2k', 'how': 'api', 'public': True, 'watchdog': 30})
        else:
            f = dict(rng.choice(ordinary))
            f['watchdog'] = 30
            h.append(f)
        if i % 50 == 49:
            h.append(echo_spec(counter))
    while True:
        r = gen_api_request(rng, counter)
        if r['m'] == 'lint':
            break
    h += [echo_spec(counter), r, gen_api_request(rng, counter), echo_spec(counter, rep('p', 300)), PID_SPEC]
    return h


def rng_free_fault(suffix):
    for f in FAULTS:
        if f['kind'] == 'fault:' + suffix:
            return f
    raise KeyError(suffix)


def work(arg):
    """one worker = at most one server at a time"""
    part = core.Part()
    seed, tier, w, nw = arg['seed'], arg['tier'], arg['worker'], arg['workers']
    quick = tier == 'quick'
    counter = [w * 1000000]
    rng = random.Random('%s:C15:work:%d' % (seed, w))

    # (f) long sessions of failing requests: without a log file (the server logs every failure to the
    #     stderr it was given) and, as control, with one; each ends with normal requests and close()
    if arg.get('failing'):
        n = arg['failing']
        plan = [(True, True), (True, False), (False, True)] * (1 if quick else 2)
        for j, (nolog, big) in enumerate(plan):
            hs = [(('long-failing', seed, j, nolog, big), long_failing_history(rng, counter, n, big))]
            isolated_session(part, hs, {'workload': 'long-failing-session', 'seed': seed, 'no_logfile': nolog, 'end_with_close': True})
            part.count('long_failing_sessions')
            part.count('long_failing_sessions_without_logfile' if nolog else 'long_failing_sessions_with_logfile')
            part.count('failing_requests_in_long_sessions', n)
            if part.violations:
                break
        return part.dump()

    # (s) slow requests: its own work item, so that the sleeping overlaps with everything else
    if arg.get('slow'):
        # the connection proxy lets the clock jump in poll(): whatever finite timeout a client has, the
        # reply to a request that sleeps 0.3..1 s comes "too late" for it
        hs = [(('slow-clock-jump', seed, d), slow_history(d, counter, rng)) for d in JUMP_SLEEPS]
        isolated_session(part, hs, {'workload': 'slow-requests-clock-jump', 'seed': seed, 'clock_jump': True})
        if part.violations:
            return part.dump()
        hs = [(('slow', seed, d), slow_history(d, counter, rng)) for d in arg['slow']]
        isolated_session(part, hs, {'workload': 'slow-requests', 'seed': seed})
        return part.dump()

    # (a) a fresh server: requests before configure, then every fault kind of this worker's
    #     share at every index of short histories
    nbase = arg['bases']
    # quick: the fault kinds are dealt out over the workers; thorough: every worker takes all
    mine = [f for j, f in enumerate(FAULTS) if j % nw == w] if quick else FAULTS
    for b in range(nbase):
        base = base_history(rng, counter)
        hs = []
        if b == 0:
            hs.append((('before-configure', seed, w), BEFORE_CONFIGURE + [echo_spec(counter), configure_spec(), gen_api_request(rng, counter)]))
        share = mine
        for kind, i, h in fault_variants(base, share, counter):
            hs.append((('fault-at-index', seed, w, b, kind, i), h))
            part.hist('fault_index', i)
        part.count('fault_kinds_x_indices', len(share) * (len(base) + 1))
        isolated_session(part, hs, {'workload': 'fault-at-every-index', 'seed': seed, 'worker': w, 'base': b})
        if part.violations:
            return part.dump()

    # (b) long random histories, one server for a few of them
    nlong = arg['long']
    per = 3 if quick else 5
    for s in range(0, nlong, per):
        hs = [(('long', seed, w, s + j), long_history(rng, counter)) for j in range(min(per, nlong - s))]
        jump = (s // per + w) % 2 == 0
        if jump:
            for _, h in hs:
                at = rng.randint(0, len(h) - 1)
                h[at:at] = [slow_spec(rng.choice([0.3, 0.5]), counter), echo_spec(counter)]
        isolated_session(part, hs, {'workload': 'long-histories', 'seed': seed, 'worker': w, 'start': s, 'clock_jump': jump})
        if part.violations:
            return part.dump()

    # (b2) reconfigure histories: several configure requests on one connection
    nre = arg.get('reconf', 0)
    for s in range(0, nre, per):
        hs = [(('reconfigure', seed, w, s + j), reconfigure_history(rng, counter)) for j in range(min(per, nre - s))]
        isolated_session(part, hs, {'workload': 'reconfigure-histories', 'seed': seed, 'worker': w, 'start': s})
        if part.violations:
            return part.dump()

    # (c) payload sizes, spread over the workers
    sizes = [s for j, s in enumerate(SIZES) if j % nw == w]
    if sizes:
        hs = [(('payload', s), payload_history(s, counter)) for s in sizes]
        for s in sizes:
            part.hist('payload_bytes', s)
        isolated_session(part, hs, {'workload': 'payload-sizes', 'seed': seed, 'worker': w})
        if part.violations:
            return part.dump()

    # (d) one exotic probe, last, on its own server (it may take the server down)
    if w == nw - 1:
        hs = [(('broken-str', seed), [configure_spec(), echo_spec(counter), BROKEN_STR, echo_spec(counter),
                                      gen_api_request(rng, counter), PID_SPEC])]
        isolated_session(part, hs, {'workload': 'broken-str', 'seed': seed, 'worker': w})
    return part.dump()


def main(run):
    # 16 shares of the work + the slow-request item (first in the queue) on 8 worker processes:
    # never more than 8 servers at a time
    nw = 2 * NSERVERS
    args = [{'seed': run.seed, 'tier': run.tier, 'worker': nw, 'workers': nw, 'slow': run.pick(SLOW_QUICK, SLOW_THOROUGH)},
            {'seed': run.seed, 'tier': run.tier, 'worker': nw + 1, 'workers': nw, 'failing': run.pick(400, 1500)}]
    args += [{'seed': run.seed, 'tier': run.tier, 'worker': w, 'workers': nw,
              'bases': run.pick(2, 2), 'long': run.pick(2, 38), 'reconf': run.pick(3, 20)} for w in range(nw)]
    for a, r in core.pmap('vf.props.c15:work', args, nproc=NSERVERS, timeout=run.pick(1800, 6000)):
        if isinstance(r, dict) and ('_died' in r or '_timeout' in r or '_error' in r):
            run.inconclusive.append('worker failure on %s: %s' % (json.dumps(a)[:100], json.dumps(r)[:1500]))
        else:
            run.merge(r)
    run.extra['fault_kinds'] = sorted(f['kind'] for f in FAULTS) + sorted(f['kind'] for f in BEFORE_CONFIGURE) + [BROKEN_STR['kind']]
    run.extra['payload_sizes'] = SIZES
    run.extra['slow_request_seconds'] = run.pick(SLOW_QUICK, SLOW_THOROUGH)
    run.extra['enumerated'] = ('every fault kind above at every index 0..len of %d short base histories per work share (quick: kinds dealt out '
                               'over the 16 work shares; thorough: every share takes all kinds)' % 2)
    run.extra['not_sent'] = 'method names %s (server plumbing / shutdown), BaseException subclasses' % (ru.NEVER_SEND,)
    return run.finish(
        rule='case = one request history sent to a real server subprocess and to the in-process mirror; non-trivial = at least '
             'one request of the history surfaced as an exception AND a later request returned a non-empty reply equal to '
             'the mirror; distinct by (workload, seed, worker, base history, fault kind, index)',
        require=('servers_started', 'replies_compared', 'ok_replies_equal', 'error_replies_equal', 'serialize_error_fallbacks',
                 'liveness_checks', 'pairing_tokens_checked', 'mirror_evaluations', 'fault_kinds_x_indices',
                 'server_log:request_errors', 'server_log:send_errors', 'slow_requests_answered',
                 'histories_with_reconfigure', 'histories_with_dyn_modules_change',
                 'replies_through_M_compared_after:same-roots-dyn-change', 'histories_with_failing_configure',
                 'project_dependent_replies_compared_after_failed_configure', 'long_failing_sessions_without_logfile',
                 'sessions_with_clock_jump_proxy'),
        assumptions=[
            'client and server run the same interpreter with the same PYTHONPATH/PYTHONHASHSEED; generated sources import only the '
            'temp project and stdlib modules that resolve identically in both processes (sys.path[0] differs: /repo/supp vs /verif)',
            'expected message of a dispatch fault = str() of the exception the same call raises on an in-process instance of the real Server class',
            'hex addresses in messages are masked before comparing',
            'domain filter: a DIFFERING reply is not reported when the in-process evaluation of that request created, or the project '
            'still holds, a supp.name.MultiName with >= 2 alternatives (kept in address order by list(set(..)): the answer is then a '
            'fact about the process - C17) or when it listed packages of a root outside the temp project (sys.modules/sys.path of '
            'the answering process); these are counted under filtered_out:*, matching replies are counted normally; the filter '
            'switches itself off once MultiName keeps the order it is given',
            'the temp project root is on PYTHONPATH of the server and on sys.path of the mirror process (modules named in dyn_modules are imported for real); '
            'the reference for every configure request is a new Project(sources, dyn_modules), whatever was configured before',
            'a configure request that raises leaves the session project of the last successful configure in place (mirror rule)',
            'a request that is never answered is reported only when the kernel shows the live server asleep in a write to its own '
            'stdout/stderr pipe (/proc/<pid>/wchan, syscall, fd links); a watchdog firing without that evidence is inconclusive',
            'each session runs in a freshly forked harness process, so the mirror process has seen exactly the requests the server process has seen',
            'nesting depth of unserialisable probes >= 3000 (certain RecursionError in dumps at the default recursion limit); no depth between 100 and 3000 is used',
            'in the sessions with the clock-jump proxy the connection object handed to supp.remote answers poll(timeout) after at most 50 ms '
            'of real time, truthfully about whether data is there; send/recv are untouched; a client that never polls (poll calls are counted) '
            'or that polls until data arrives is unaffected',
            'slow requests (server-side time.sleep of 0.5..16 s) are workload only: the verdict is reply == expected value and the pairing of the following replies',
            'one client thread; method names close/run/process/conn/project and BaseExceptions are not sent',
            'a recv blocking > %d s (300 s for the 30000-row lint reply) kills the server and makes the run inconclusive, never a violation' % ru.WATCHDOG_S],
        exhaustive=False)


def replay(run, path_):
    with open(path_) as f:
        data = json.load(f)
    part = core.Part()
    for v in data['violations']:
        c = v['case']
        specs = [c['specs'][i] for i in c['sent']]
        isolated_session(part, [(('replay', v['mech']), specs)], c.get('meta', {}), files=c['files'])
    run.merge(part.dump())
    for v in run.violations:
        print('REPLAYED', v['mech'], v['what'][:300])
    for r in run.inconclusive:
        print('INCONCLUSIVE', r)
    return 1 if run.violations else (2 if run.inconclusive else 0)
