"""C16 - exactly one server under every interleaving; close and disconnect end it.

Monitor (a): the real ``supp.remote.Environment`` runs on real threads under the controlled
scheduler of vf/sched.py (``supp.remote.Thread`` / ``Lock`` / ``time`` rebound, process launch
and connection replaced by counting fakes); the schedules of up to three client threads
are enumerated (sleep-set DFS = exhaustive up to commuting independent steps for 1 and 2
clients, preemption-bounded DFS + PCT/random schedules for 3 clients, random schedules with
every source line as a switch point as a guard for the line classification).

Monitor (b): real ``server.py`` child processes: close() -> child exits -> a new child
answers; dropping the client end (closing the connection object / killing the process that
holds it) ends the child; a non-existent executable surfaces as the launch error and
leaves the client usable.
"""
import collections
import json
import os
import random
import shutil
import signal
import subprocess
import sys
import tempfile
import time as real_time
import traceback

from vf import core, sched

MARK = 'vf-injected-launch-fault'

# ---------------------------------------------------------------------------------------
# fault variants: plan per launch ordinal (within one run), later launches are 'ok'

VARIANTS = {
    'none': {'plan': [], 'sleep_extra': 0.0},
    # the server needs a moment: the first two connection attempts are refused
    'refuse2': {'plan': [('refuse', 2)], 'sleep_extra': 0.0},
    # launching the process fails once (e.g. fork failure): Popen raises
    'popen-raise': {'plan': ['popen-raise'], 'sleep_extra': 0.0},
    # the first child never listens; on a loaded machine (every sleep overshoots by 6 s)
    # the 5 s limit of _run() expires at the second attempt
    'timeout': {'plan': ['dead'], 'sleep_extra': 6.0},
    # the same with an exact clock: 18 attempts before the limit (random schedules only)
    'timeout-exact': {'plan': ['dead'], 'sleep_extra': 0.0},
    # two failed launches in a row
    'popen-raise2': {'plan': ['popen-raise', 'popen-raise'], 'sleep_extra': 0.0},
}


# The launch window documented by the repository itself: Environment._run keeps trying to connect
# until 5 s after the launch ("if time.time() - start > 5" in the unchanged supp/remote.py).
LAUNCH_WINDOW = 5.0
LISTEN_INSIDE = (0.2, 1.0, 2.9, 3.3, 4.0, 4.6, 4.9)     # virtual seconds after launch: must connect
LISTEN_BEYOND = (5.5, 8.0)                              # beyond the window: the timeout is expected
for _t in LISTEN_INSIDE + LISTEN_BEYOND:
    # the launched server refuses connections until virtual time _t after its launch; the fake
    # sleep advances the virtual clock by exactly the requested amount (sleep_extra 0)
    VARIANTS['listen-%s' % _t] = {'plan': [('listen-at', _t)], 'sleep_extra': 0.0}


class InjectedLaunchFailure(OSError):
    pass


class InjectedRefusal(ConnectionRefusedError):
    pass


def _remote():
    from supp import remote
    return remote


def remote_file():
    return _remote().__file__


_SRC_CACHE = {}


def remote_source():
    f = remote_file()
    if f not in _SRC_CACHE:
        with open(f) as fh:
            src = fh.read()
        vis, acc, info = sched.classify_lines(src)
        _SRC_CACHE[f] = (src, src.splitlines(), vis, acc, info)
    return _SRC_CACHE[f]


# ---------------------------------------------------------------------------------------
# fakes (their state lives in a World, one per run, reachable through the scheduler)

class FakeServer(object):
    def __init__(self, ordinal, addr, plan, launcher):
        self.ordinal = ordinal
        self.addr = addr
        self.plan = plan
        self.listen_delay = plan[1] if isinstance(plan, tuple) and plan[0] == 'listen-at' else None
        # good = a client that follows the documented start-up handshake gets connected to it
        self.good = (plan == 'ok' or (isinstance(plan, tuple) and plan[0] == 'refuse')
                     or (self.listen_delay is not None and self.listen_delay < LAUNCH_WINDOW))
        self.refusals_left = plan[1] if isinstance(plan, tuple) and plan[0] == 'refuse' else 0
        self.launched_at = None       # virtual clock at launch
        self.connected = False
        self.ended = False
        self.launcher = launcher
        self.requests = 0


class FakeProc(object):
    def __init__(self, world, server, args):
        self.world = world
        self.server = server
        self.args = args
        self.pid = 100000 + server.ordinal
        self.returncode = None

    def poll(self):
        self.world.sched.touch('world', write=False)
        return 0 if self.server.ended else None

    def wait(self, timeout=None):
        return self.poll()

    def kill(self):
        self.world.sched.touch('world')
        self.server.ended = True

    terminate = kill


class FakeConn(object):
    def __init__(self, world, server):
        self.world = world
        self.server = server
        self.queue = collections.deque()
        self.closed = False

    def _check(self):
        if self.closed:
            raise OSError('handle is closed')

    def send_bytes(self, data):
        w = self.world
        w.sched.touch('world')
        self._check()
        if self.server.ended:
            raise BrokenPipeError(32, 'Broken pipe')
        msg = w.loads(bytes(data))
        name = msg[0]
        if name == 'close':
            self.server.ended = True
            w.closes_received += 1
            return
        self.server.requests += 1
        reply = w.dumps(([w.uid, self.server.ordinal, name, list(msg[1])], True))
        self.queue.append(reply)

    def recv_bytes(self, maxlength=None):
        w = self.world
        w.sched.touch('world')
        self._check()
        if not self.queue and not self.server.ended:
            ts = sched.current_ts()
            w.sched.park(ts, ('recv', self))
            w.sched.touch('world')
            self._check()
        if self.queue:
            return self.queue.popleft()
        raise EOFError()

    def readable(self):
        return bool(self.queue) or self.server.ended or self.closed

    def poll(self, timeout=0.0):
        self.world.sched.touch('world', write=False)
        self._check()
        return bool(self.queue) or self.server.ended

    def close(self):
        self.world.sched.touch('world')
        self.closed = True
        self.server.ended = True

    def fileno(self):
        return -1


class World(object):
    def __init__(self, s, variant, uid):
        from supp import umsgpack
        self.sched = s
        self.loads = umsgpack.loads
        self.dumps = umsgpack.dumps
        self.uid = uid
        self.plan = list(VARIANTS[variant]['plan'])
        self.servers = []
        self.by_addr = {}
        self.launch_log = []         # every Popen call
        self.double = []             # launches made while a good live server existed
        self.injected = 0
        self.failed_launches = 0     # Popen raised, or the launched child never listens
        self.closes_received = 0
        self.ops = []
        self.track_ops = False

    def popen(self, args, *a, **kw):
        s = self.sched
        s.touch('world')
        ts = sched.current_ts()
        ordinal = len(self.launch_log)
        plan = self.plan[ordinal] if ordinal < len(self.plan) else 'ok'
        launcher = 'starter' if ts is not None and ts.kind == 'starter' else 'run'
        self.launch_log.append({'ordinal': ordinal, 'tid': getattr(ts, 'tid', None), 'by': launcher,
                                'plan': plan if isinstance(plan, str) else list(plan), 'step': s.steps - 1})
        if plan in ('popen-raise', 'dead') or (isinstance(plan, tuple) and plan[0] == 'listen-at' and plan[1] >= LAUNCH_WINDOW):
            self.failed_launches += 1
        if plan == 'popen-raise':
            self.injected += 1
            raise InjectedLaunchFailure(2, '%s: cannot start process (launch #%d)' % (MARK, ordinal))
        live = [sv for sv in self.servers if sv.good and not sv.ended]
        addr = args[2] if isinstance(args, (list, tuple)) and len(args) > 2 else 'addr-%d' % ordinal
        sv = FakeServer(ordinal, addr, plan, launcher)
        s.touch('clock', write=False)
        sv.launched_at = s.clock
        if live:
            self.double.append({'existing': [x.launcher for x in live], 'new': launcher,
                                'existing_connected': [x.connected for x in live]})
        self.servers.append(sv)
        self.by_addr[addr] = sv
        return FakeProc(self, sv, args)

    def client(self, addr, *a, **kw):
        self.sched.touch('world')
        sv = self.by_addr.get(addr)
        if sv is None:
            raise FileNotFoundError(2, 'No such file or directory')
        if sv.ended:
            raise ConnectionRefusedError(111, 'Connection refused')
        not_yet = False
        if sv.listen_delay is not None:
            self.sched.touch('clock', write=False)
            not_yet = self.sched.clock - sv.launched_at < sv.listen_delay - 1e-9
        if sv.plan == 'dead' or sv.refusals_left > 0 or not_yet:
            if sv.refusals_left > 0:
                sv.refusals_left -= 1
            self.injected += 1
            raise InjectedRefusal(111, '%s: connection refused (launch #%d)' % (MARK, sv.ordinal))
        sv.connected = True
        return FakeConn(self, sv)


def _world():
    s = sched.current_sched()
    return s.world if s is not None else None


_REAL = {}


def _fake_popen(*a, **kw):
    w = _world()
    if w is None:
        return _REAL['Popen'](*a, **kw)
    return w.popen(*a, **kw)


def _fake_client(*a, **kw):
    w = _world()
    if w is None:
        return _REAL['Client'](*a, **kw)
    return w.client(*a, **kw)


class Patched(object):
    """Context manager: rebinds the module-level names for the duration of a chunk."""

    def __enter__(self):
        import multiprocessing.connection as mpc
        import multiprocessing.process as mpp
        remote = _remote()
        self.saved = (remote.Thread, remote.Lock, remote.time, subprocess.Popen, mpc.Client)
        _REAL['Popen'] = subprocess.Popen
        _REAL['Client'] = mpc.Client
        sched.enable_monitoring(sched.code_objects_of(remote, remote.__file__))
        remote.Thread = sched.SchedThread
        remote.Lock = sched.SchedLock
        remote.time = sched.VirtualTime(real_time)
        subprocess.Popen = _fake_popen
        mpc.Client = _fake_client
        # arbitrary_address() creates a per-process temp dir on first use: keep it in a
        # directory this chunk removes
        self.tmp = tempfile.mkdtemp(prefix='vf-')
        cfg = mpp.current_process()._config
        self.old_tmp = cfg.get('tempdir')
        cfg['tempdir'] = self.tmp
        return self

    def __exit__(self, *a):
        import multiprocessing.connection as mpc
        import multiprocessing.process as mpp
        remote = _remote()
        remote.Thread, remote.Lock, remote.time, subprocess.Popen, mpc.Client = self.saved
        cfg = mpp.current_process()._config
        if self.old_tmp is None:
            cfg.pop('tempdir', None)
        else:
            cfg['tempdir'] = self.old_tmp
        shutil.rmtree(self.tmp, ignore_errors=True)
        return False


# ---------------------------------------------------------------------------------------
# one controlled run

def describe_exc(e):
    rf = remote_file()
    lines = remote_source()[1]
    func, lineno, text = None, None, ''
    tb = e.__traceback__
    while tb is not None:
        if tb.tb_frame.f_code.co_filename == rf:
            func, lineno = tb.tb_frame.f_code.co_name, tb.tb_lineno
        tb = tb.tb_next
    if lineno is not None and 0 < lineno <= len(lines):
        text = lines[lineno - 1].strip()
    msg = str(e)
    injected = isinstance(e, (InjectedLaunchFailure, InjectedRefusal)) or (func == '_run' and MARK in msg)
    return {'type': type(e).__name__, 'msg': msg[:300], 'func': func, 'lineno': lineno, 'line': text,
            'injected': injected}


def exc_label(d):
    """mechanism label from the exception type + the source line of supp/remote.py that raised it"""
    if d['type'] == 'TypeError' and d['func'] == 'close' and 'dumps(' in d['line']:
        return 'close-typeerror'
    if (d['type'] == 'AttributeError' and d['func'] == 'run' and '.join(' in d['line']
            and 'NoneType' in d['msg']):
        return 'run-join-race'
    return 'client-exception:%s@%s' % (d['type'], d['func'] or 'outside-remote')


def client_body(env, world, idx, script):
    def body():
        ts = sched.current_ts()
        s = world.sched
        for i, op in enumerate(script):
            if world.track_ops:
                # Operation boundaries are switch points of their own and conflict with the
                # boundaries of close() operations, so that "this operation overlapped another
                # thread's close()" is the same in every equivalent reordering of a schedule.
                ts.at = 'op%d:%s' % (i, op)
                ts.func = 'client-script'
                ts.midline = False
                s.park(ts, None)
                s.touch('ops', write=(op == 'X'))
            rec = {'thread': idx, 'i': i, 'op': op, 'begin': s.steps - 1, 'end': None, 'exc': None, 'reply': None}
            world.ops.append(rec)
            ts.data['op'] = rec
            try:
                if op == 'P':
                    env.prepare()
                elif op == 'C':
                    tok = 'tok-%d-%d' % (idx, i)
                    r = env.eval(tok)
                    if (isinstance(r, list) and len(r) == 4 and r[0] == world.uid and r[2] == 'eval'
                            and isinstance(r[3], list) and len(r[3]) == 1):
                        rec['reply'] = 'own' if r[3][0] == tok else 'crosstalk'
                        rec['server'] = r[1]
                    else:
                        rec['reply'] = 'none'
                        rec['got'] = repr(r)[:200]
                elif op == 'X':
                    env.close()
                else:
                    raise AssertionError(op)
            except sched.SchedAbort:
                raise
            except Exception as e:
                rec['exc'] = describe_exc(e)
            if world.track_ops:
                s.touch('ops', write=(op == 'X'))
            rec['end'] = s.steps - 1
            ts.data['op'] = None
    return body


def window_lines():
    """(test line, join line, clear line) of the prepare_thread test/join window in run(), from
    the current AST; None when run() no longer has that shape."""
    import ast
    src = remote_source()[0]
    tree = ast.parse(src)
    test = join = clear = None
    for fn in ast.walk(tree):
        if isinstance(fn, ast.FunctionDef) and fn.name == 'run':
            for node in ast.walk(fn):
                if isinstance(node, ast.If) and 'prepare_thread' in ast.dump(node.test):
                    for sub in ast.walk(node):
                        if (isinstance(sub, ast.Call) and isinstance(sub.func, ast.Attribute) and sub.func.attr == 'join'
                                and 'prepare_thread' in ast.dump(sub.func.value)):
                            test, join = node.lineno, sub.lineno
        if isinstance(fn, ast.FunctionDef) and fn.name == '_threaded_run':
            for node in ast.walk(fn):
                if isinstance(node, ast.Assign) and 'prepare_thread' in ast.dump(node.targets[0]) \
                        and isinstance(node.value, ast.Constant) and node.value.value is None:
                    clear = node.lineno
    if test and join and clear and test != join:
        return test, join, clear
    return None


_UID = [0]
_IVIS = {}


def _instr_info(code):
    """(switch-point instructions, per-instruction access sets) of one code object of supp/remote.py"""
    r = _IVIS.get(code)
    if r is None:
        src, lines, vis, acc, info = remote_source()
        r = _IVIS[code] = sched.classify_instructions(code, set(info['shared_attributes']), vis, info['call_access'])
    return r


def _instr_info_all(code):
    return None, _instr_info(code)[1]


def run_once(config, chooser, max_steps=3000):
    """config: {'scripts': [...], 'variant': name, 'mode': 'reduced'|'full'|'instr'|'instr-full'}:
    switch points = visible lines | all lines | shared-state instructions | all instructions.
    Returns (sched, world)."""
    remote = _remote()
    src, lines, vis, acc, info = remote_source()
    mode = config.get('mode', 'reduced')
    full = mode == 'full'
    s = sched.Scheduler(chooser, remote_file(), visible=None if full else vis, line_access=acc,
                        max_steps=max_steps, instr=mode in ('instr', 'instr-full'),
                        instr_info=_instr_info if mode == 'instr' else _instr_info_all)
    s.sleep_extra = VARIANTS[config['variant']]['sleep_extra']
    _UID[0] += 1
    w = World(s, config['variant'], 'run-%d-%d' % (os.getpid(), _UID[0]))
    s.world = w
    w.track_ops = any('X' in x for x in config['scripts']) and len(config['scripts']) > 1
    sched._tls.driver_sched = s
    try:
        env = remote.Environment(executable='/vf/fake/python')
        w.env = env
        for i, script in enumerate(config['scripts']):
            s.spawn(client_body(env, w, i, script), 'client%d' % i, 'client')
        s.run()
    finally:
        sched._tls.driver_sched = None
    return s, w


def overlaps_close(rec, ops):
    """rec and a close() of another thread are not ordered one wholly after the other
    (begin/end = index of the scheduler step that contains the operation's boundary)"""
    a0, a1 = rec['begin'], rec['end'] if rec['end'] is not None else 10 ** 9
    for o in ops:
        if o['op'] == 'X' and o['thread'] != rec['thread']:
            b0, b1 = o['begin'], o['end'] if o['end'] is not None else 10 ** 9
            if a0 <= b1 and b0 <= a1:
                return True
    return False


def unexpected_timeout(d, w):
    """the exception is _run()'s launch timeout although the refused server starts listening inside
    the documented launch window -> returns that server, else None"""
    import re
    if d['func'] != '_run' or MARK not in d['msg'] or d['type'] in ('InjectedLaunchFailure', 'InjectedRefusal'):
        return None
    m = re.search(r'launch #(\d+)', d['msg'])
    if not m:
        return None
    for sv in w.servers:
        if sv.ordinal == int(m.group(1)) and sv.listen_delay is not None and sv.good:
            return sv
    return None


def timeout_violation(d, w, who):
    sv = unexpected_timeout(d, w)
    return ('launch-timeout-inside-launch-window',
            '%s got "%s" at remote.py:%s `%s` although the launched server starts listening %.1f s (virtual) after its launch, '
            'inside the %.0f s launch window (virtual clock now %.2f s after launch)' % (
                who, d['msg'][:120], d['lineno'], d['line'], sv.listen_delay, LAUNCH_WINDOW, w.sched.clock - sv.launched_at),
            {'exc': d, 'listen_delay': sv.listen_delay})


def judge(config, s, w):
    """Returns (list of (mech, what, extra), observations dict)."""
    out = []
    obs = collections.Counter()
    if s.status == 'watchdog':
        obs['harness_watchdog'] += 1
        return out, obs
    if s.status == 'deadlock':
        b = s.blocked_summary()
        blocked_ops = [t.data.get('op') for t in s.threads if not t.done]
        raced = any(o['op'] == 'C' and overlaps_close(o, w.ops) for o in w.ops)
        if all(o is not None and overlaps_close(o, w.ops) for o in blocked_ops):
            # e.g. a call sent its request on a connection that another thread's close() then
            # replaced: it waits for ever - not judged, like every operation racing with close()
            obs['deadlocks_where_every_blocked_op_overlaps_a_concurrent_close(not judged)'] += 1
        elif raced and all(x['pending'] == 'recv' for x in b):
            # a call that raced with close() sent on the old connection and then took a later
            # caller's reply from the new one (cross-talk, not judged): the later caller waits
            obs['receive_hangs_in_runs_where_a_call_raced_with_close(not judged)'] += 1
        else:
            sig = '+'.join(sorted('%s@%s' % (x['pending'], x['func']) for x in b))
            out.append(('deadlock:' + sig, 'no thread enabled, %d not finished: %s' % (len(b), json.dumps(b)), {'blocked': b}))
    elif s.status == 'step-limit':
        out.append(('step-limit', 'run did not finish within %d scheduler steps' % s.max_steps, {}))
    for d in w.double:
        out.append(('double-launch:' + '+'.join(sorted(d['existing'][:1] + [d['new']])),
                    'a second server was launched (by %s) while a server launched by %s was alive (launch log %s)' % (
                        d['new'], d['existing'], json.dumps(w.launch_log)), {'double': d}))
    for t in s.threads:
        if t.exc is None:
            continue
        if t.kind == 'starter':
            d = describe_exc(t.exc)
            if unexpected_timeout(d, w) is not None:
                out.append(timeout_violation(d, w, 'the background starter thread'))
            elif d['injected']:
                obs['starter_ended_with_injected_failure'] += 1
            else:
                out.append(('starter-exception:%s@%s' % (d['type'], d['func'] or 'outside-remote'),
                            'background starter thread ended with %s: %s at remote.py:%s `%s`' % (
                                d['type'], d['msg'], d['lineno'], d['line']), {'exc': d}))
        else:
            obs['harness_client_body_error'] += 1
    if s.status != 'done':
        return out, obs
    seen_injected = False
    for rec in sorted(w.ops, key=lambda r: r['begin']):
        ov = overlaps_close(rec, w.ops)
        e = rec['exc']
        if e is not None:
            if unexpected_timeout(e, w) is not None:
                out.append(timeout_violation(e, w, 'a %s of thread %d (script %s)' % (
                    {'P': 'prepare()', 'C': 'call', 'X': 'close()'}[rec['op']], rec['thread'], config['scripts'][rec['thread']])))
                continue
            if e['injected']:
                seen_injected = True
                obs['ops_failed_with_injected_launch_failure'] += 1
                continue
            if ov:
                obs['exceptions_in_ops_overlapping_a_concurrent_close(not judged)'] += 1
                continue
            lab = exc_label(e)
            if lab.startswith('client-exception:') and w.failed_launches and rec['op'] == 'C':
                lab = 'retry-after-launch-failure:' + lab[len('client-exception:'):]
            out.append((lab, '%s of thread %d (script %s) raised %s: %s at remote.py:%s in %s `%s`' % (
                {'P': 'prepare()', 'C': 'call', 'X': 'close()'}[rec['op']], rec['thread'],
                config['scripts'][rec['thread']], e['type'], e['msg'], e['lineno'], e['func'], e['line']),
                {'exc': e, 'op': rec['op'], 'after_injected_failure': bool(w.failed_launches)}))
            continue
        if rec['op'] == 'C':
            obs['calls_returned'] += 1
            if rec['reply'] == 'own':
                obs['calls_answered_own_reply'] += 1
            elif rec['reply'] == 'crosstalk':
                obs['calls_answered_with_another_callers_reply(not a violation)'] += 1
            elif ov:
                obs['unanswered_calls_overlapping_a_concurrent_close(not judged)'] += 1
            else:
                out.append(('no-reply', 'call of thread %d returned %s instead of a reply' % (rec['thread'], rec.get('got')),
                            {'got': rec.get('got')}))
    if seen_injected:
        obs['runs_with_injected_failure_seen_by_a_caller'] += 1
    return out, obs


def count_window(s, win):
    """number of times a caller stood between the test and the join of run() while the
    starter cleared its handle"""
    if not win:
        return 0
    test, join, clear = win
    hits = 0
    waiting = {}
    for tid, at in s.trail:
        if at == test:
            waiting[tid] = False
        elif at == clear:
            for k in waiting:
                waiting[k] = True
        elif at == join:
            if waiting.pop(tid, False):
                hits += 1
        elif tid in waiting and isinstance(at, int) and at not in (test, join):
            # the thread moved elsewhere: in reduced mode test and join are adjacent visible steps
            if not (test < at < join):
                waiting.pop(tid, None)
    return hits


# ---------------------------------------------------------------------------------------
# exploration of one configuration

def config_key(config):
    return '%s|%s|%s' % (','.join(config['scripts']), config['variant'], config.get('mode', 'reduced'))


def work_roots(arg):
    """decision prefixes of length `depth` that partition the bounded DFS tree of a configuration"""
    config, bound, depth = arg['config'], arg['bound'], arg['depth']
    roots = []
    with Patched():
        ex = sched.Explorer(lambda ch: run_once(config, ch)[0], bound=bound, mode='plain', limit_depth=depth)
        for s in ex:
            roots.append(ex.last_root)
    return {'config': config, 'bound': bound, 'roots': roots}


def explore_config(part, config, how, seed, reported):
    """how: {'kind': 'sleep'|'plain'|'random', 'bound': int|None, 'cap': int, 'n': int}"""
    key = config_key(config)
    win = window_lines()
    hashes = set()
    outcomes = set()
    stats = {'schedules': 0, 'exhausted': False, 'key': key}

    def account(s, w):
        stats['schedules'] += 1
        part.evaluations += 1
        part.count('schedules')
        part.count('schedules_%s_%s' % (how['kind'], config.get('mode', 'reduced')))
        part.count('scheduler_steps', s.steps)
        hashes.add(s.trail_hash())
        part.hist('run_status', s.status)
        part.hist('threads_per_run', len(s.threads))
        part.hist('preemptions_per_run', s.preemptions)
        part.hist('popen_calls_hist', '%s|%s:%d' % ('with-close' if any('X' in x for x in config['scripts']) else 'no-close', config['variant'], len(w.launch_log)))
        part.hist('servers_started_per_run', len(w.servers))
        if config['variant'].startswith('listen-'):
            part.count('schedules_with_a_virtual_time_listen_delay')
            sv0 = w.servers[0] if w.servers else None
            if sv0 is not None and sv0.listen_delay is not None:
                part.hist('listen_delay_outcome(T: connected | timeout expected | never tried)',
                          '%s: %s' % (sv0.listen_delay, 'connected' if sv0.connected else ('timeout' if not sv0.good else 'not connected')))
        part.hist('steps_per_run(bucket of 20)', s.steps // 20 * 20)
        for t in s.threads:
            if t.kind == 'starter':
                part.hist('daemon_flag_of_starter_threads(controlled runs, observation)', 'daemon' if t.data.get('daemon') else 'non-daemon')
        if s.instr:
            part.count('instruction_level_schedules')
            part.count('instruction_level_preemptions(mid-line)', s.midline_preemptions)
            if s.midline_preemptions:
                part.count('schedules_with_a_mid_line_preemption')
            for pos in s.midline_positions:
                part.hist('mid_line_preemption_positions(func:line+offset)', pos)
        hits = count_window(s, win)
        if hits:
            part.count('schedules_starter_cleared_handle_between_test_and_join')
        viols, obs = judge(config, s, w)
        for k, v in obs.items():
            part.count(k, v)
        part.count('oracle_judgements', 1 + len(w.ops))
        sig = (s.status, len(w.launch_log), len(w.servers), tuple(sorted(set(v[0] for v in viols))))
        outcomes.add(sig)
        for mech, what, extra in viols:
            part.hist('violation_instances', mech)
            rk = (key, mech)
            if reported.get(rk, 0) < 1:
                reported[rk] = reported.get(rk, 0) + 1
                case = {'monitor': 'a', 'scripts': config['scripts'], 'variant': config['variant'],
                        'mode': config.get('mode', 'reduced'), 'schedule': list(s.schedule),
                        'trail': [list(x) for x in s.trail], 'launch_log': w.launch_log,
                        'ops': w.ops, 'exploration': how['kind']}
                case.update(extra)
                part.violation(mech, '[scripts %s, faults %s] %s' % ('/'.join(config['scripts']), config['variant'], what), case)

    kind = how['kind']
    try:
        if kind in ('sleep', 'plain'):
            ex = sched.Explorer(lambda ch: run_once(config, ch)[0], bound=how.get('bound'), mode=kind,
                                max_schedules=how.get('cap'), root=how.get('root'))
            for s in ex:
                account(s, s.world)
            stats['exhausted'] = ex.exhausted
            part.count('sleep_set_blocked_runs', ex.pruned)
            if how.get('root') is not None:
                part.count('bounded_dfs_subtrees')
                if ex.exhausted:
                    part.count('bounded_dfs_subtrees_exhausted')
            elif ex.exhausted:
                if len(config['scripts']) <= 2:
                    part.count('configs_1_or_2_clients_exhausted')
                part.count('configs_exhausted_%s' % ('sleep_sets' if kind == 'sleep' else
                                                     ('bound%s' % how.get('bound') if how.get('bound') is not None else 'plain')))
            else:
                part.count('configs_hit_schedule_cap')
                part.hist('configs_that_hit_the_schedule_cap', key)
                if len(config['scripts']) <= 2:
                    part.count('configs_1_or_2_clients_hit_schedule_cap')
        else:
            for i in range(how['n']):
                rng = random.Random('%s:C16:%s:%s:%d' % (seed, key, how.get('flavour', 'mix'), i))
                r = rng.random()
                if r < 0.5:
                    ch = sched.PctChooser(rng, depth=rng.choice((2, 3, 4)), steps_estimate=how.get('steps', 60))
                elif r < 0.9:
                    ch = sched.RandomChooser(rng, stay=rng.choice((0.3, 0.6, 0.85)))
                else:
                    ch = sched.RandomChooser(rng, stay=0.0)
                s, w = run_once(config, ch, max_steps=how.get('max_steps', 6000))
                account(s, w)
    except sched.Nondeterminism as e:
        part.inconclusive.append('replay of a schedule prefix diverged for %s: %s' % (key, e))
    part.count('distinct_interleavings', len(hashes))
    stats['distinct'] = len(hashes)
    stats['outcomes'] = sorted(map(repr, outcomes))
    part.case(key + '|' + kind, nontrivial=len(hashes) >= 2)
    return stats


def work_sched(arg):
    part = core.Part()
    t_job = real_time.time()
    reported = {}
    with Patched():
        for config, how in arg['jobs']:
            t0 = real_time.time()
            st = explore_config(part, config, how, arg['seed'], reported)
            part.hist('seconds_by_exploration_kind(wall, informational)', how['kind'] + '/' + config.get('mode', 'reduced'),
                      round(real_time.time() - t0, 2))
            if os.environ.get('VF_C16_TIMES'):
                sys.stderr.write('C16TIME %.2f %s %s %d\n' % (real_time.time() - t0, st['key'], how['kind'], st['schedules']))
            if how.get('crosscheck'):
                # the same configuration without the sleep-set reduction must show the same outcomes
                p2 = core.Part()
                st2 = explore_config(p2, config, {'kind': 'plain', 'bound': None, 'cap': how.get('cap')}, arg['seed'], {})
                part.count('sleep_set_crosschecks')
                part.count('crosscheck_plain_schedules', st2['schedules'])
                if st['exhausted'] and st2['exhausted'] and st['outcomes'] != st2['outcomes']:
                    part.inconclusive.append('sleep-set exploration of %s saw outcomes %s, plain DFS %s' % (
                        st['key'], st['outcomes'], st2['outcomes']))
            if len(part.samples) < 2:
                part.sample({'config': st['key'], 'exploration': how, 'schedules': st['schedules'],
                             'distinct_interleavings': st['distinct'], 'exhausted': st['exhausted'],
                             'outcomes(status, popen calls, servers, violations)': st['outcomes']})
    if os.environ.get('VF_C16_TIMES'):
        sys.stderr.write('C16JOB end=%.1f dur=%.1f n=%d first=%s\n' % (real_time.time() % 1000, real_time.time() - t_job, len(arg['jobs']),
                                                                    config_key(arg['jobs'][0][0]) + '/' + arg['jobs'][0][1]['kind']))
    return part.dump()


# ---------------------------------------------------------------------------------------
# monitor (b): real server.py children

EXIT_WATCHDOG = 30.0      # the server polls its connection once a second


def _wait_exit(proc, secs=EXIT_WATCHDOG):
    t0 = real_time.time()
    while real_time.time() - t0 < secs:
        if proc.poll() is not None:
            return True
        real_time.sleep(0.05)
    return proc.poll() is not None


def _pid_alive(pid):
    try:
        with open('/proc/%d/stat' % pid) as f:
            st = f.read()
    except (FileNotFoundError, ProcessLookupError):
        return False
    state = st.rsplit(')', 1)[1].split()[0]
    return state != 'Z'


def _wait_pid_gone(pid, secs=EXIT_WATCHDOG):
    t0 = real_time.time()
    while real_time.time() - t0 < secs:
        if not _pid_alive(pid):
            return True
        real_time.sleep(0.05)
    return not _pid_alive(pid)


def _kill(proc):
    try:
        if proc is not None and proc.poll() is None:
            proc.kill()
            proc.wait(10)
    except Exception:
        pass


GETPID = 'import os\nreturn os.getpid()'


def real_close(part, rep):
    """close() -> the child exits -> the next call starts a new child that answers"""
    remote = _remote()
    procs = []
    env = remote.Environment()
    try:
        try:
            env.close()
            part.count('real_close_on_unstarted_client_ok')
        except Exception as e:
            d = describe_exc(e)
            part.violation(exc_label(d), 'real run: close() on a client that never started a server raised %s: %s' % (d['type'], d['msg']),
                           {'monitor': 'b', 'scenario': 'close', 'exc': d})
            return
        cycles = 1 + rep % 3
        for c in range(cycles):
            pid = env.eval(GETPID)
            proc = env.proc
            procs.append(proc)
            part.count('real_calls_answered')
            if proc.poll() is not None or not isinstance(pid, int):
                part.inconclusive.append('real close scenario: server did not answer with its pid (%r)' % (pid,))
                return
            try:
                env.close()
            except Exception as e:
                d = describe_exc(e)
                part.count('real_close_raised(exit of the child not checked)')
                part.violation(exc_label(d), 'real run: close() raised %s: %s at remote.py:%s `%s` (child %d still running: %s)' % (
                    d['type'], d['msg'], d['lineno'], d['line'], proc.pid, proc.poll() is None),
                    {'monitor': 'b', 'scenario': 'close', 'exc': d})
                return
            part.count('real_close_calls_ok')
            if not _wait_exit(proc):
                part.violation('child-alive-after-close', 'real run: server child %d still running %.0f s after close()' % (proc.pid, EXIT_WATCHDOG),
                               {'monitor': 'b', 'scenario': 'close'})
                return
            part.count('real_child_exited_after_close')
            pid2 = env.eval(GETPID)
            proc2 = env.proc
            procs.append(proc2)
            if not isinstance(pid2, int) or proc2 is proc or proc2.poll() is not None or pid2 == pid:
                part.violation('no-new-server-after-close', 'real run: call after close() answered %r (old server pid %r, same Popen object: %s)' % (
                    pid2, pid, proc2 is proc), {'monitor': 'b', 'scenario': 'close'})
                return
            part.count('real_new_server_after_close_answered')
            env.close()
            if not _wait_exit(proc2):
                part.violation('child-alive-after-close', 'real run: second server child %d still running after close()' % proc2.pid,
                               {'monitor': 'b', 'scenario': 'close'})
                return
    finally:
        for p in procs + [getattr(env, 'proc', None)]:
            _kill(p)


def real_drop_conn(part, rep):
    """the client end disappears without close(): the connection object is closed"""
    remote = _remote()
    env = remote.Environment()
    try:
        pid = env.eval(GETPID)
        proc = env.proc
        if not isinstance(pid, int) or proc.poll() is not None:
            part.inconclusive.append('real drop-conn scenario: server did not answer (%r)' % (pid,))
            return
        part.count('real_calls_answered')
        for i in range(rep % 3):
            env.eval('return %d' % i)
        env.conn.close()
        part.count('real_disconnects')
        if not _wait_exit(proc):
            part.violation('child-alive-after-disconnect:conn-closed',
                           'real run: server child %d still running %.0f s after the client closed its connection object' % (proc.pid, EXIT_WATCHDOG),
                           {'monitor': 'b', 'scenario': 'drop-conn'})
            return
        part.count('real_child_exited_after_disconnect')
    finally:
        _kill(getattr(env, 'proc', None))


HOLDER = r'''
import sys, time, os
from supp.remote import Environment
e = Environment()
pid = e.eval('import os\nreturn os.getpid()')
sys.stdout.write('%d %d\n' % (pid, e.proc.pid))
sys.stdout.flush()
mode = sys.argv[1]
if mode == 'exit':
    os._exit(0)
time.sleep(600)
'''


def real_holder(part, rep, mode='kill'):
    """the process holding the client end is killed (or exits without close())"""
    import threading
    import multiprocessing.process as mpp
    # the holder cannot clean up after itself: its temp files go to this scenario's scratch dir
    holder = subprocess.Popen([core.PY, '-B', '-c', HOLDER, mode], stdout=subprocess.PIPE, stderr=subprocess.DEVNULL,
                              env=core.child_env({'TMPDIR': mpp.current_process()._config['tempdir']}))
    spid = None
    try:
        res = {}

        def rd():
            res['line'] = holder.stdout.readline()
        t = threading.Thread(target=rd, daemon=True)
        t.start()
        t.join(60)
        line = res.get('line')
        if not line:
            part.inconclusive.append('real holder scenario: holder process printed no server pid')
            return
        spid = int(line.split()[0])
        if not _pid_alive(spid):
            part.inconclusive.append('real holder scenario: server pid %d not alive right after answering' % spid)
            return
        part.count('real_calls_answered')
        if mode == 'kill':
            holder.send_signal(signal.SIGKILL)
        holder.wait(30)
        part.count('real_disconnects')
        if not _wait_pid_gone(spid):
            part.violation('child-alive-after-disconnect:holder-%s' % ('killed' if mode == 'kill' else 'exited'),
                           'real run: server %d still running %.0f s after the process holding the client end %s' % (
                               spid, EXIT_WATCHDOG, 'was killed' if mode == 'kill' else 'exited without close()'),
                           {'monitor': 'b', 'scenario': 'holder-' + mode})
            return
        part.count('real_child_exited_after_disconnect')
    finally:
        _kill(holder)
        if spid is not None and _pid_alive(spid):
            try:
                os.kill(spid, signal.SIGKILL)
            except Exception:
                pass


def _expect_launch_error(part, env, what, scenario, accept):
    try:
        r = env.eval('return 1')
    except Exception as e:
        d = describe_exc(e)
        if accept(e):
            part.count('real_launch_failures_surfaced')
            return True
        part.violation('launch-failure-wrong-exception:%s@%s' % (d['type'], d['func'] or 'outside-remote'),
                       'real run: %s raised %s: %s at remote.py:%s `%s` instead of the launch error' % (
                           what, d['type'], d['msg'], d['lineno'], d['line']),
                       {'monitor': 'b', 'scenario': scenario, 'exc': d})
        return False
    part.violation('launch-failure-not-surfaced', 'real run: %s returned %r although no server can start' % (what, r),
                   {'monitor': 'b', 'scenario': scenario})
    return False


def real_bad_exe(part, rep):
    """a non-existent executable surfaces as the launch exception and leaves the client usable"""
    remote = _remote()
    env = remote.Environment(executable='/nonexistent/vf-no-such-python-%d' % rep)
    is_os = lambda e: isinstance(e, OSError)
    try:
        if not _expect_launch_error(part, env, 'first call with a non-existent executable', 'bad-exe', is_os):
            return
        if not _expect_launch_error(part, env, 'second call with a non-existent executable', 'bad-exe', is_os):
            return
        try:
            env.prepare()
        except Exception as e:
            d = describe_exc(e)
            part.violation(exc_label(d), 'real run: prepare() with a non-existent executable raised %s: %s' % (d['type'], d['msg']),
                           {'monitor': 'b', 'scenario': 'bad-exe', 'exc': d})
            return
        t = env.prepare_thread
        if t is not None:
            t.join(30)
        if not _expect_launch_error(part, env, 'call after a failed background start', 'bad-exe', is_os):
            return
        env.executable = sys.executable
        try:
            r = env.eval('return 6 * 7')
        except Exception as e:
            d = describe_exc(e)
            if 'launching timeout' in d['msg']:
                # the real child did not come up within supp's own 5 s limit: machine load, no verdict
                part.inconclusive.append('real bad-exe scenario: valid server did not start within 5 s (%s)' % d['msg'][:100])
                return
            part.violation('client-not-reusable-after-launch-failure',
                           'real run: after the launch failures a call with a valid executable raised %s: %s at remote.py:%s `%s`' % (
                               d['type'], d['msg'], d['lineno'], d['line']), {'monitor': 'b', 'scenario': 'bad-exe', 'exc': d})
            return
        if r != 42:
            part.violation('client-not-reusable-after-launch-failure', 'real run: call after launch failures answered %r, expected 42' % (r,),
                           {'monitor': 'b', 'scenario': 'bad-exe'})
            return
        part.count('real_calls_answered')
        part.count('real_client_reused_after_launch_failure')
    finally:
        _kill(getattr(env, 'proc', None))


def real_exe_exits(part, rep):
    """the launched program exits at once: the 5 s connect limit must surface, client reusable"""
    remote = _remote()
    env = remote.Environment(executable='/bin/true')
    ok = lambda e: type(e) is Exception and 'timeout' in str(e).lower()
    try:
        if not _expect_launch_error(part, env, 'call with an executable that exits immediately', 'exe-exits', ok):
            return
        part.count('real_connect_timeouts_surfaced')
        env.executable = sys.executable
        try:
            r = env.eval('return 6 * 7')
        except Exception as e:
            d = describe_exc(e)
            if 'launching timeout' in d['msg']:
                part.inconclusive.append('real exe-exits scenario: valid server did not start within 5 s (%s)' % d['msg'][:100])
                return
            part.violation('client-not-reusable-after-launch-failure',
                           'real run: after a connect timeout a call with a valid executable raised %s: %s' % (d['type'], d['msg']),
                           {'monitor': 'b', 'scenario': 'exe-exits', 'exc': d})
            return
        if r != 42:
            part.violation('client-not-reusable-after-launch-failure', 'real run: call after connect timeout answered %r' % (r,),
                           {'monitor': 'b', 'scenario': 'exe-exits'})
            return
        part.count('real_calls_answered')
        part.count('real_client_reused_after_launch_failure')
    finally:
        _kill(getattr(env, 'proc', None))


CLIENT_EXIT = r"""
import os, sys, time, threading, subprocess
OUT, MODE, HOW = sys.argv[1], sys.argv[2], sys.argv[3]


def note(text):
    with open(OUT, 'a') as f:
        f.write(text + '\n')


class Popen(subprocess.Popen):          # observation only: pid of every process the client launches
    def __init__(self, *a, **k):
        super().__init__(*a, **k)
        note('S %d' % self.pid)


subprocess.Popen = Popen
import supp.remote as remote


class Thread(remote.Thread):            # observation only: daemon flag of threads remote.py starts
    def start(self):
        note('T %d' % bool(self.daemon))
        super().start()


remote.Thread = Thread
old_hook = threading.excepthook


def hook(args):
    note('E %s %s' % (args.exc_type.__name__, str(args.exc_value).replace('\n', ' ')[:200]))


threading.excepthook = hook
env = remote.Environment()
env.prepare()
if MODE == 'launched':
    t0 = time.time()
    while not hasattr(env, 'proc') and time.time() - t0 < 20:
        time.sleep(0.001)
elif MODE == 'listening':
    t0 = time.time()
    while not hasattr(env, 'proc') and time.time() - t0 < 20:
        time.sleep(0.001)
    addr = env.proc.args[2]
    while not os.path.exists(addr) and time.time() - t0 < 20:
        time.sleep(0.001)
elif MODE == 'after-call':
    assert env.eval('return 6 * 7') == 42
elif MODE == 'after-call-close':
    assert env.eval('return 6 * 7') == 42
    env.close()
elif MODE == 'close-at-once':
    env.close()
else:
    assert MODE == 'immediate'
note('M main thread done')
if HOW == 'sys-exit':
    sys.exit(0)
"""


def real_client_exit(part, rep, mode):
    """a real client process calls prepare() and ENDS NORMALLY (end of script / sys.exit) at a chosen
    point, without or with close(): every server it launched has to end once the client is gone"""
    import multiprocessing.process as mpp
    tmp = mpp.current_process()._config['tempdir']
    out = os.path.join(tmp, 'client-exit-%s-%d.txt' % (mode, rep))
    how = 'sys-exit' if rep % 2 else 'end-of-script'
    # the launched server inherits the client's stdio: nothing of it may be a pipe we wait on
    client = subprocess.Popen([core.PY, '-B', '-c', CLIENT_EXIT, out, mode, how], stdin=subprocess.DEVNULL,
                              stdout=subprocess.DEVNULL, stderr=subprocess.DEVNULL,
                              env=core.child_env({'TMPDIR': tmp}))
    pids = []
    try:
        try:
            client.wait(90)
        except subprocess.TimeoutExpired:
            part.inconclusive.append('real client-exit scenario %s: client process did not end within 90 s' % mode)
            return
        lines = []
        if os.path.exists(out):
            with open(out) as f:
                lines = f.read().splitlines()
        pids = [int(l.split()[1]) for l in lines if l.startswith('S ')]
        flags = [l.split()[1] for l in lines if l.startswith('T ')]
        errors = [l[2:] for l in lines if l.startswith('E ')]
        for fl in flags:
            part.hist('daemon_flag_of_threads_started_by_remote.py(real client, observation)', 'daemon' if fl == '1' else 'non-daemon')
        if client.returncode != 0 or 'M main thread done' not in lines:
            part.inconclusive.append('real client-exit scenario %s: client script failed (status %r, notes %r)' % (
                mode, client.returncode, lines[-3:]))
            return
        part.count('real_client_processes_ended_normally')
        part.hist('real_client_exit_points', '%s/%s' % (mode, how))
        if any('launching timeout' in e for e in errors):
            # the server needed more than supp's own 5 s to listen (machine load): the starter gave
            # up, nobody will ever connect - no verdict on a wall-clock effect
            part.count('real_client_exit_runs_with_launch_timeout(not judged)')
            return
        if not pids:
            part.count('real_client_exit_runs_without_a_launched_server')
            return
        part.count('real_disconnects')
        for pid in pids:
            if not _wait_pid_gone(pid):
                part.violation('child-alive-after-disconnect:client-exited-%s' % mode,
                               'real run: server %d still running %.0f s after its client process (prepare(), exit point "%s", %s, '
                               'starter threads daemon=%s) ended normally' % (pid, EXIT_WATCHDOG, mode, how, flags),
                               {'monitor': 'b', 'scenario': 'client-exit-' + mode, 'notes': lines})
                return
        part.count('real_child_exited_after_disconnect')
        part.count('real_servers_gone_after_client_process_end', len(pids))
    finally:
        _kill(client)
        for pid in pids:
            if _pid_alive(pid):
                try:
                    os.kill(pid, signal.SIGKILL)
                except Exception:
                    pass


CLIENT_EXIT_MODES = ('launched', 'listening', 'immediate', 'after-call', 'after-call-close', 'close-at-once')

REAL = {
    'close': real_close,
    'drop-conn': real_drop_conn,
    'holder-kill': lambda p, r: real_holder(p, r, 'kill'),
    'holder-exit': lambda p, r: real_holder(p, r, 'exit'),
    'bad-exe': real_bad_exe,
    'exe-exits': real_exe_exits,
}
for _m in CLIENT_EXIT_MODES:
    REAL['client-exit-' + _m] = (lambda m: lambda p, r: real_client_exit(p, r, m))(_m)


def work_real(arg):
    part = core.Part()
    name, rep = arg['scenario'], arg['rep']
    tmp = tempfile.mkdtemp(prefix='vf-')
    import multiprocessing.process as mpp
    cfg = mpp.current_process()._config
    old = cfg.get('tempdir')
    cfg['tempdir'] = tmp
    try:
        part.count('real_runs')
        part.hist('real_scenarios', name)
        n0 = len(part.violations)
        try:
            REAL[name](part, rep)
        except Exception:
            part.inconclusive.append('real scenario %s: harness error %s' % (name, traceback.format_exc()[-1500:]))
        part.case('real|%s|%d' % (name, rep), nontrivial=True)
        part.count('real_runs_judged')
        if len(part.violations) == n0:
            part.count('real_runs_without_violation')
    finally:
        if old is None:
            cfg.pop('tempdir', None)
        else:
            cfg['tempdir'] = old
        shutil.rmtree(tmp, ignore_errors=True)
    return part.dump()


# ---------------------------------------------------------------------------------------
# configurations

NOCLOSE_SHORT = ['P', 'C', 'PC', 'CP', 'CC']
NOCLOSE_LONG = ['PCC', 'CPC', 'CCP']


def _perms(multiset):
    import itertools
    return sorted(set(''.join(p) for p in itertools.permutations(multiset)))


CLOSE_3 = ['X', 'PX', 'XP', 'CX', 'XC'] + _perms('PCX') + _perms('CCX')
CLOSE_4 = _perms('PCCX')


def _pairs(a, b=None):
    out = []
    if b is None:
        for i, x in enumerate(a):
            for y in a[i:]:
                out.append([x, y])
    else:
        seen = set()
        for x in a:
            for y in b:
                k = tuple(sorted((x, y)))
                if k not in seen:
                    seen.add(k)
                    out.append([x, y])
    return out


def _multisets3(a):
    out = []
    for i, x in enumerate(a):
        for j in range(i, len(a)):
            for k in range(j, len(a)):
                out.append([x, a[j], a[k]])
    return out


VAR_COST = {'none': 1.0, 'popen-raise': 1.3, 'popen-raise2': 1.6, 'refuse2': 3.0, 'timeout': 3.0, 'timeout-exact': 6.0}
for _t in LISTEN_INSIDE + LISTEN_BEYOND:
    VAR_COST['listen-%s' % _t] = 2.0 + min(_t, 5.0)


def build_jobs(run):
    """returns (jobs, bounded): jobs = list of (weight, [(config, how), ...]), one element = one worker
    call; bounded = configurations for the preemption-bounded DFS (split into sub-trees later)"""
    q = run.quick
    cap = run.pick(8000, 30000)
    jobs = []

    def cfg(scripts, variant, mode='reduced'):
        return {'scripts': list(scripts), 'variant': variant, 'mode': mode}

    def weight(scripts, variant):
        return len(''.join(scripts)) ** 3 * VAR_COST[variant] * (4 if len(scripts) > 2 else 1)

    def sleep_job(scripts, variant):
        c = cap if q or len(scripts) > 2 else 5 * cap
        jobs.append((weight(scripts, variant), [(cfg(scripts, variant), {'kind': 'sleep', 'cap': c})]))

    # 1 client: every script, every fault variant: sleep sets; plain DFS cross-check on the shorter ones
    one = NOCLOSE_SHORT + NOCLOSE_LONG + CLOSE_3 + CLOSE_4
    items = []
    for s in one:
        for v in ('none', 'refuse2', 'popen-raise', 'timeout', 'popen-raise2'):
            cross = (len(s) <= 3 and v in ('none', 'popen-raise', 'timeout')) if q else (len(s) <= 3 or v == 'none')
            items.append((cfg([s], v), {'kind': 'sleep', 'cap': cap, 'crosscheck': cross}))
    for chunk in core.chunks(items, 6):
        jobs.append((1500, chunk))
    # 2 clients without close(): exhaustive (sleep sets)
    short_pairs = _pairs(NOCLOSE_SHORT)
    all_nc = NOCLOSE_SHORT + NOCLOSE_LONG
    long_pairs = [p for p in _pairs(all_nc) if p not in short_pairs]
    for p in short_pairs:
        for v in ('none', 'refuse2', 'popen-raise', 'timeout') + (() if q else ('popen-raise2',)):
            sleep_job(p, v)
    for p in long_pairs:
        for v in (('none',) if q else ('none', 'refuse2', 'popen-raise', 'timeout')):
            sleep_job(p, v)
    # tiny 2-client configurations also without the reduction (cross-check of the sleep sets)
    for p in (['P', 'P'], ['P', 'C']):
        jobs.append((4000, [(cfg(p, 'none'), {'kind': 'sleep', 'cap': cap, 'crosscheck': True})]))
    # 2 clients, close() stratum
    if q:
        cl = _pairs(['X', 'CX', 'XC', 'PX', 'CXC'], ['C', 'PC', 'CC', 'X', 'CX'])
        cvars = ('none', 'popen-raise')
    else:
        cl = _pairs(CLOSE_3, NOCLOSE_SHORT + ['X', 'CX', 'XC', 'CXC'])
        cvars = ('none', 'popen-raise', 'timeout')
    for p in cl:
        for v in cvars:
            if v == 'timeout' and len(''.join(p)) > 4:
                continue
            sleep_job(p, v)
    # 3 clients: exhaustive up to the preemption bound (plain DFS), sleep-set exhaustive where the cap
    # allows, PCT / random schedules on longer scripts
    for t in _multisets3(['P', 'C', 'PC']):
        for v in (('none', 'popen-raise', 'timeout') if q else ('none', 'refuse2', 'popen-raise', 'timeout', 'popen-raise2')):
            sleep_job(t, v)
    if not q:
        for t in _multisets3(['P', 'C', 'PC', 'CP', 'CC']):
            if sum(1 for x in t if x in ('CP', 'CC')) == 1:
                for v in ('none', 'popen-raise'):
                    sleep_job(t, v)
    small3 = [['P', 'C', 'PC'], ['C', 'C', 'PC'], ['P', 'P', 'C'], ['C', 'C', 'C'], ['P', 'P', 'P'], ['P', 'C', 'C']]
    if q:
        bounded = [(cfg(t, 'none'), 2) for t in small3]
    else:
        bounded = [(cfg(t, 'none'), 3) for t in small3 if t != ['C', 'C', 'PC']]
        bounded += [(cfg(t, 'none'), 2) for t in _multisets3(['P', 'C', 'PC']) if t not in small3 or t == ['C', 'C', 'PC']]
        bounded += [(cfg(['P', 'C', 'PC'], 'popen-raise'), 2)]
    if q:
        x3 = [['CX', 'C', 'P'], ['CX', 'PC', 'C'], ['X', 'C', 'C'], ['XC', 'C', 'P']]
    else:
        x3 = [t for t in _multisets3(['C', 'P', 'CX', 'X']) if any('X' in x for x in t)]
        x3 += [['CX', 'PC', 'C'], ['XC', 'C', 'P'], ['XC', 'PC', 'C'], ['CXC', 'C', 'P']]
    for t in x3:
        for v in ('none', 'popen-raise'):
            sleep_job(t, v)
    rng = run.rng('random-configs')
    pool = all_nc + CLOSE_3 + CLOSE_4
    nrand = run.pick(48, 320)
    per = run.pick(150, 1000)
    batch = []
    for i in range(nrand):
        n = 3 if rng.random() < 0.8 else 2
        scripts = [rng.choice(pool if rng.random() < 0.5 else all_nc) for _ in range(n)]
        v = rng.choice(['none', 'none', 'refuse2', 'popen-raise', 'timeout', 'popen-raise2', 'timeout-exact'])
        batch.append((cfg(scripts, v), {'kind': 'random', 'n': per, 'steps': 80}))
    for ch in core.chunks(batch, 3):
        jobs.append((500 if q else 3000, ch))
    # guard for the line classification: random schedules with EVERY line as a switch point
    nfull = run.pick(32, 320)
    perf = run.pick(60, 800)
    batch = []
    for i in range(nfull):
        n = rng.choice((2, 2, 3))
        scripts = [rng.choice(pool if rng.random() < 0.3 else all_nc) for _ in range(n)]
        v = rng.choice(['none', 'none', 'refuse2', 'popen-raise', 'timeout'])
        batch.append((cfg(scripts, v, 'full'), {'kind': 'random', 'n': perf, 'steps': 250, 'max_steps': 20000}))
    for ch in core.chunks(batch, 4):
        jobs.append((400 if q else 4000, ch))
    # ---- launch window in VIRTUAL time: the launched server starts listening T s after its launch ----
    # (T inside the repository's own 5 s window: the connect must succeed, one launch, no exception;
    # T beyond it: the timeout is the expected outcome and the next call launches again)
    listen = ['listen-%s' % t for t in LISTEN_INSIDE + LISTEN_BEYOND]
    items = []
    for s in NOCLOSE_SHORT + NOCLOSE_LONG + ['PCX', 'CXC']:
        for v in listen:
            items.append((cfg([s], v), {'kind': 'sleep', 'cap': cap}))
    for chunk in core.chunks(items, 15):
        jobs.append((1500, chunk))
    for p in (['C', 'C'], ['P', 'C'], ['P', 'P'], ['C', 'CC'], ['P', 'CC']):
        for v in listen:
            sleep_job(p, v)
    for p in (['PC', 'C'], ['PC', 'PC'], ['PC', 'P']):
        for v in (listen[:2] if q else listen[:3]):
            sleep_job(p, v)
    lrng = run.rng('random-configs-listen')
    batch = []
    for i in range(run.pick(18, 120)):
        n = lrng.choice((2, 3, 3))
        scripts = [lrng.choice(all_nc) for _ in range(n)]
        batch.append((cfg(scripts, lrng.choice(listen), lrng.choice(('reduced', 'reduced', 'instr'))),
                      {'kind': 'random', 'n': run.pick(100, 600), 'steps': 150, 'max_steps': 12000}))
    for ch in core.chunks(batch, 3):
        jobs.append((500 if q else 3000, ch))
    # ---- instruction granularity: switch points between the bytecodes of one source line ----------
    # (attribute accesses to shared attributes and calls on visible lines; mode 'instr-full': every
    # instruction).  Same scripts, same oracle; sleep-set DFS where it is cheap, random/PCT otherwise.
    def isleep(scripts, variant, cross=False, c=None):
        jobs.append((weight(scripts, variant) * 2, [(cfg(scripts, variant, 'instr'),
                                                     {'kind': 'sleep', 'cap': c or cap, 'crosscheck': cross})]))
    items = []
    for s in NOCLOSE_SHORT + NOCLOSE_LONG + ['PP', 'PPC'] + CLOSE_3:
        for v in (('none', 'popen-raise') if q else ('none', 'refuse2', 'popen-raise', 'timeout')):
            items.append((cfg([s], v, 'instr'), {'kind': 'sleep', 'cap': cap, 'crosscheck': s in ('P', 'C', 'PC', 'CP', 'PP') and v == 'none'}))
    for chunk in core.chunks(items, 8):
        jobs.append((1500, chunk))
    for p in short_pairs:
        for v in (('none', 'popen-raise', 'timeout') if q else ('none', 'refuse2', 'popen-raise', 'timeout')):
            isleep(p, v)
    for p in long_pairs:
        for v in (('none',) if q else ('none', 'popen-raise')):
            isleep(p, v)
    for p in (_pairs(['X', 'CX', 'PX'], ['C', 'PC', 'P', 'CX']) if q else _pairs(CLOSE_3, NOCLOSE_SHORT + ['X', 'CX'])):
        for v in (('none',) if q else ('none', 'popen-raise')):
            isleep(p, v)
    for t in _multisets3(['P', 'C', 'PC']):
        for v in (('none',) if q else ('none', 'popen-raise', 'timeout')):
            isleep(t, v)
    irng = run.rng('random-configs-instr')
    batch = []
    for i in range(run.pick(24, 160)):
        n = 3 if irng.random() < 0.7 else 2
        scripts = [irng.choice(pool if irng.random() < 0.3 else all_nc + ['P', 'PC']) for _ in range(n)]
        v = irng.choice(['none', 'none', 'refuse2', 'popen-raise', 'timeout', 'popen-raise2'])
        batch.append((cfg(scripts, v, 'instr'), {'kind': 'random', 'n': run.pick(150, 1000), 'steps': 120, 'max_steps': 12000}))
    for ch in core.chunks(batch, 3):
        jobs.append((500 if q else 3000, ch))
    batch = []
    for i in range(run.pick(16, 160)):
        n = irng.choice((2, 2, 3))
        scripts = [irng.choice(pool if irng.random() < 0.3 else all_nc + ['P', 'PC']) for _ in range(n)]
        v = irng.choice(['none', 'none', 'refuse2', 'popen-raise', 'timeout'])
        batch.append((cfg(scripts, v, 'instr-full'), {'kind': 'random', 'n': run.pick(60, 600), 'steps': 1500, 'max_steps': 120000}))
    for ch in core.chunks(batch, 4):
        jobs.append((400 if q else 4000, ch))
    return jobs, bounded


def dispatch(arg):
    if arg['kind'] == 'real':
        return work_real(arg)
    return work_sched(arg)


def main(run):
    src, lines, vis, acc, info = remote_source()
    jobs, bounded = build_jobs(run)
    # split the bounded DFS trees into independent sub-trees (decision prefixes) first
    nroots = {}
    for a, r in core.pmap('vf.props.c16:work_roots', [{'config': c, 'bound': bd, 'depth': run.pick(5, 5 + 2 * bd)} for c, bd in bounded],
                          timeout=600):
        if 'roots' not in r:
            run.inconclusive.append('could not split the bounded DFS of %s: %s' % (config_key(a['config']), json.dumps(r)[:500]))
            continue
        nroots[config_key(r['config'])] = len(r['roots'])
        for ch in core.chunks(r['roots'], run.pick(4, 6)):
            jobs.append((2500 * r['bound'], [(r['config'], {'kind': 'plain', 'bound': r['bound'], 'root': root, 'cap': run.pick(6000, 60000)})
                                             for root in ch]))
    jobs.sort(key=lambda j: -j[0])
    args = []
    reps = run.pick(1, 4)
    for name in ('exe-exits', 'close', 'drop-conn', 'holder-kill', 'holder-exit', 'bad-exe'):
        for r in range(reps):
            args.append({'kind': 'real', 'scenario': name, 'rep': run.seed * 7 + r})
    for m in CLIENT_EXIT_MODES:
        # the two start-up exit points race with the starter's 0.3 s retry rhythm: repeat them
        for r in range(run.pick(3, 8) if m in ('launched', 'listening') else run.pick(1, 3)):
            args.append({'kind': 'real', 'scenario': 'client-exit-' + m, 'rep': run.seed * 7 + r})
    nconf = len(bounded)
    for w, j in jobs:
        nconf += sum(1 for c, h in j if 'root' not in h)
        args.append({'kind': 'sched', 'seed': run.seed, 'jobs': j})
    core.run_parts(run, 'vf.props.c16:dispatch', args, timeout=run.pick(600, 3000))
    if run.counters.get('bounded_dfs_subtrees_exhausted', 0) == sum(nroots.values()) and nroots:
        for c, bd in bounded:
            run.count('configs_exhausted_bound%d' % bd)
    else:
        run.count('configs_hit_schedule_cap', len(nroots))
    run.count('configurations', nconf)
    for cname, hname in (('max_preemptions', 'preemptions_per_run'), ('max_steps_in_a_run(bucket of 20)', 'steps_per_run(bucket of 20)')):
        keys = [int(k) for k in run.hists.get(hname, {})]
        if keys:
            run.counters[cname] = max(keys)
    exhausted = sum(v for k, v in run.counters.items() if k.startswith('configs_exhausted_'))
    capped = run.counters.get('configs_hit_schedule_cap', 0)
    run.extra['scheduler'] = {
        'switch_points': 'reduced mode: line events of supp/remote.py on lines %s (shared attributes from the AST: %s); full mode: every line event; '
                         'instr mode: instruction events of supp/remote.py on attribute loads/stores/deletes of those attributes and on call/with '
                         'instructions of those lines; instr-full mode: every instruction event' % (
            info['visible_lines'], info['shared_attributes']),
        'instruction_level': {
            'schedules': run.counters.get('instruction_level_schedules', 0),
            'preemptions_at_mid_line_positions': run.counters.get('instruction_level_preemptions(mid-line)', 0),
            'distinct_mid_line_positions_preempted': len(run.hists.get('mid_line_preemption_positions(func:line+offset)', {})),
            'note': 'a position is mid-line when an earlier switch point of the same source line was already passed in that frame, '
                    'i.e. it cannot be reached by a line-granularity scheduler',
        },
        'window_lines(test, join, clear)': window_lines(),
        'fault_variants': {k: v for k, v in VARIANTS.items()},
        'one_client_scripts': NOCLOSE_SHORT + NOCLOSE_LONG + CLOSE_3 + CLOSE_4,
        'preemption_bounded_dfs(config, bound)': [[config_key(c), bd] for c, bd in bounded],
        'exhaustive_configurations': exhausted,
        'configurations_that_hit_the_schedule_cap': capped,
        'exhaustive_sub_space': 'coverage.exhaustive refers to the 1- and 2-client configurations (counter configs_1_or_2_clients_exhausted): '
                                'all schedules of their threads at the reduced switch points, up to reordering of adjacent independent steps '
                                '(sleep sets); 3-client configurations counted under configs_exhausted_* are complete in the same sense resp. '
                                'up to the preemption bound, the others stopped at the schedule cap',
    }
    if run.counters.get('harness_watchdog'):
        run.inconclusive.append('%d controlled runs ended by the harness watchdog' % run.counters['harness_watchdog'])
    if run.counters.get('harness_client_body_error'):
        run.inconclusive.append('%d client bodies ended with a harness error' % run.counters['harness_client_body_error'])
    return run.finish(
        rule='evaluation = one executed schedule of one configuration (client scripts x fault variant x switch-point mode) judged by the '
             'launch/answer/deadlock oracle, or one real-subprocess scenario; non-trivial = a configuration for which at least two distinct '
             'interleavings (hash of the visible-step sequence) were executed, or a real scenario; distinct by configuration + exploration kind',
        require=('schedules', 'distinct_interleavings', 'calls_answered_own_reply', 'real_runs_judged', 'real_calls_answered',
                 'schedules_random_full', 'real_disconnects', 'real_launch_failures_surfaced',
                 'schedules_with_a_virtual_time_listen_delay', 'real_client_processes_ended_normally', 'real_servers_gone_after_client_process_end',
                 'instruction_level_schedules', 'instruction_level_preemptions(mid-line)', 'schedules_sleep_instr',
                 'schedules_random_instr-full'),
        assumptions=[
            'process launch and connection are fakes in monitor (a): a launched fake server answers every request with an echo; a server counts as '
            'ended when it received the close request or its connection object was closed',
            'switch points are source lines (sys.monitoring LINE events) in modes reduced/full and bytecode instructions (INSTRUCTION events) in modes instr/instr-full; '
            'one bytecode instruction is atomic (as under the GIL)',
            'reduced mode treats lines that touch no shared state (per AST of the current remote.py) as invisible; guarded by random schedules with every line visible',
            'the sleep-set reduction relies on per-step access sets (static per line + dynamic for lock/thread/clock/fakes); cross-checked against plain DFS on all 1-client and two 2-client configurations',
            'calls/closes that overlap in time with another thread\'s close() are not judged (the property does not say what they must do); wrong-caller replies are counted, not judged',
            'launch window: %.0f s, the constant of the unchanged supp/remote.py (connect retries until time.time() - start > 5); a server that starts '
            'listening less than that after its launch (virtual clock: fake sleep advances it by exactly the requested amount) must get connected - '
            'the launch timeout is then a violation, beyond the window it is the expected outcome' % LAUNCH_WINDOW,
            'launch-count rule: a launch while a connectable server of the same client is alive (launched, not ended) is a violation; launches after injected launch failures or after close() are expected',
            'monitor (b): 30 s watchdog for child exit (server polls once a second)'],
        exhaustive=bool(run.counters.get('configs_1_or_2_clients_exhausted')) and not run.counters.get('configs_1_or_2_clients_hit_schedule_cap'))


def replay(run, path):
    with open(path) as f:
        data = json.load(f)
    part = core.Part()
    for v in data['violations']:
        c = v['case']
        if c.get('monitor') == 'b':
            r = work_real({'scenario': c['scenario'], 'rep': 0})
            for x in r['violations']:
                print('REPLAYED', x['mech'], x['what'][:300])
                part.violations.append(x)
            continue
        config = {'scripts': c['scripts'], 'variant': c['variant'], 'mode': c.get('mode', 'reduced')}
        with Patched():
            ch = sched.FixedChooser(c['schedule'])
            s, w = run_once(config, ch, max_steps=20000)
            viols, obs = judge(config, s, w)
        if ch.diverged is not None:
            print('replay: recorded schedule diverged at step %d (source changed?)' % ch.diverged)
        for mech, what, extra in viols:
            print('REPLAYED', mech, what[:300])
            part.violation(mech, what, c)
        if not viols:
            print('replay: schedule of %s no longer violates (status %s)' % (config_key(config), s.status))
    run.merge(part.dump())
    return 1 if run.violations else 0
