"""C17 - deterministic output.

Monitor: the same request (source text, position, project files) is answered by the REAL supp
  (a) twice in one process (two complete passes over the batch, each with fresh Project objects, garbage allocated
      in between), and
  (b) in 6 (quick) / 16 (thorough) fresh interpreter processes (vf/c17_child.py) that differ in PYTHONHASHSEED
      (0, 1, 2, 'random', drawn numbers) and in the amount of garbage allocated before supp is imported and between
      requests (moves object addresses, which the order of a set of identity-hashed objects depends on);
the canonical JSON of every answer must be byte-identical everywhere.  (c) Every list of alternative definitions in
a location() answer must be in source order (line, column ascending; entries without a position first).

Requests: assistant.location / assistant.assist / linter.lint (rows[:4]) / module members (attr_list order, _attrs
order, the definition picked for every exported name) on generated programs (G-prog, selected for names bound in
several branches / loops / try chains), generated class-hierarchy projects (G-class) and real files; only requests
whose answer has more than one alternative / more than one element are compared (the property's domain).
An exception counts as an answer by its type (whether a call may raise at all is C08's business).
"""
import ast
import collections
import hashlib
import json
import os
import random
import re
import shutil
import subprocess
import tempfile

from vf import core, corpus
from vf import c17_child as child

CHILD = os.path.join(core.VERIF, 'vf', 'c17_child.py')
COMPOUND = tuple(getattr(ast, n) for n in ('If', 'For', 'While', 'Try', 'TryStar', 'With', 'AsyncFor', 'AsyncWith',
                                           'FunctionDef', 'AsyncFunctionDef', 'ClassDef', 'ExceptHandler', 'Match')
                 if hasattr(ast, n))
_NL = re.compile(r'\r\n|\r|\n')


# ---------------------------------------------------------------------------------------------------------------
# batches

class Batch(object):
    def __init__(self):
        self.projects = {}      # pid -> {'roots': [...], 'root': tmp root or None, 'files': {rel: text} or None}
        self.texts = []
        self._tix = {}
        self.requests = []
        self.meta = []          # per request: dict(source, nalt, own_files, multi_exports, label)

    def text(self, t):
        i = self._tix.get(t)
        if i is None:
            i = self._tix[t] = len(self.texts)
            self.texts.append(t)
        return i

    def add(self, op, pid, text=None, pos=None, filename=None, module=None, **meta):
        req = {'op': op, 'project': pid}
        if text is not None:
            req['text'] = self.text(text)
            req['pos'] = list(pos) if pos else None
            req['filename'] = filename
        if module is not None:
            req['module'] = module
        self.requests.append(req)
        self.meta.append(meta)

    def subset(self, idxs):
        b = Batch()
        b.projects = self.projects
        for i in idxs:
            r = self.requests[i]
            b.add(r['op'], r['project'], self.texts[r['text']] if 'text' in r else None, r.get('pos'),
                  r.get('filename'), r.get('module'), **self.meta[i])
        return b

    def data(self):
        return {'projects': {k: {'roots': v['roots']} for k, v in self.projects.items()},
                'texts': self.texts, 'requests': self.requests}

    def case_of(self, i):
        """everything needed to re-create request i without the generators."""
        r = self.requests[i]
        m = self.meta[i]
        p = self.projects[r['project']]
        files = None
        if p.get('files') is not None:
            own = m.get('own_files')
            files = dict(p['files']) if own is None else {k: v for k, v in p['files'].items()
                                                          if k in own or k in p.get('base', ())}
        c = {'op': r['op'], 'source': m.get('source'), 'pos': r.get('pos'), 'module': r.get('module'),
             'filename': r.get('filename'), 'text': self.texts[r['text']] if 'text' in r else None,
             'files': files, 'root': p.get('root'), 'roots': p['roots'] if files is None else None,
             'what': (m.get('cand') or {}).get('what'), 'force_domain': bool(m.get('force_domain')),
             'root_specs': p.get('root_specs'), 'roots_used': p['roots']}
        if files is not None and r.get('filename'):
            c['filename_rel'] = os.path.relpath(r['filename'], p['root'])
        return c


def write_files(root, files):
    for rel, text in files.items():
        path = os.path.join(root, rel)
        os.makedirs(os.path.dirname(path), exist_ok=True)
        with open(path, 'w') as f:
            f.write(text)


def _char_col(lines, lineno, col):
    """ast columns are utf-8 byte offsets, supp positions index the line's characters."""
    try:
        line = lines[lineno - 1]
    except IndexError:
        return col
    if line.isascii():
        return col
    return len(line.encode('utf-8')[:col].decode('utf-8', 'ignore'))


def _inverted(nm):
    """evidence only: some alternative is declared textually earlier but becomes visible later than another one
    (`for x in f((x := v())):`), so visibility order and source order of the alternatives differ."""
    vn = [x for x in nm.valid_names if getattr(x, 'declared_at', None)]
    by_vis = [tuple(x.declared_at) for x in sorted(vn, key=lambda x: tuple(x.location))]
    return by_vis != sorted(by_vis)


def prescan(part, text, filename, project):
    """SELECTION ONLY (never a verdict): run the real analysis once and list the name reads whose table entry is a
    multiply-bound name, the `self.a` reads of attributes assigned in several places, and how many module-level names
    are multiply bound.  -> (tree, candidates, n_multi_exports) or None."""
    from supp.util import Source, np
    from supp.nast import extract_scope
    from supp.name import MultiName
    try:
        src = Source(text, filename)
        tree = src.tree
        scope = extract_scope(src, project)
        lines = _NL.split(text)
        cands = []
        for n in ast.walk(tree):
            if isinstance(n, ast.Name) and isinstance(n.ctx, ast.Load) and hasattr(n, 'flow'):
                nm = n.flow.names_at(np(n)).get(n.id)
                if type(nm) is MultiName and len(nm.valid_names) >= 2:
                    cands.append({'pos': [n.lineno, _char_col(lines, n.lineno, n.col_offset) + len(n.id)],
                                  'name': n.id, 'nalt': len(nm.valid_names), 'what': 'name',
                                  'inverted': _inverted(nm)})
            elif (isinstance(n, ast.Attribute) and isinstance(n.ctx, ast.Load) and isinstance(n.value, ast.Name)
                  and hasattr(n.value, 'flow') and n.end_lineno == n.value.lineno):
                nm = n.value.flow.names_at(np(n.value)).get(n.value.id)
                if type(nm) is MultiName and len(nm.valid_names) >= 2:
                    cands.append({'pos': [n.end_lineno, _char_col(lines, n.end_lineno, n.end_col_offset)],
                                  'name': n.value.id + '.' + n.attr, 'nalt': len(nm.valid_names),
                                  'what': 'attr-of-multi'})
        nme = 0
        for k, v in scope.names.items():
            if type(v) is MultiName and len(v.valid_names) >= 2:
                nme += 1
    except Exception as e:
        part.count('prescan_raised(selection only; C08 business)')
        part.hist('prescan_exceptions', type(e).__name__)
        return None
    for cls in ast.walk(tree):
        if not isinstance(cls, ast.ClassDef):
            continue
        stores = collections.Counter()
        loads = []
        for n in ast.walk(cls):
            if isinstance(n, ast.Attribute) and isinstance(n.value, ast.Name) and n.value.id == 'self':
                if isinstance(n.ctx, ast.Store):
                    stores[n.attr] += 1
                elif isinstance(n.ctx, ast.Load) and n.end_lineno == n.lineno:
                    loads.append(n)
        for n in loads:
            if stores[n.attr] >= 2:
                cands.append({'pos': [n.end_lineno, _char_col(lines, n.end_lineno, n.end_col_offset)],
                              'name': 'self.' + n.attr, 'nalt': stores[n.attr], 'what': 'self-attr'})
    return tree, cands, nme


def enclosing_index(tree):
    spans = []
    for n in ast.walk(tree):
        if isinstance(n, COMPOUND) and hasattr(n, 'lineno'):
            spans.append((n.lineno, getattr(n, 'end_lineno', n.lineno), type(n).__name__))
    return spans


def try_regions(tree):
    """[(handler line ranges, else line range)] of every try statement with handlers and an else block"""
    out = []
    for n in ast.walk(tree):
        if isinstance(n, (ast.Try, getattr(ast, 'TryStar', ast.Try))) and n.handlers and n.orelse:
            out.append(([(h.lineno, h.end_lineno) for h in n.handlers],
                        (n.orelse[0].lineno, n.orelse[-1].end_lineno)))
    return out


def spans_handler_and_else(regions, lines):
    for hs, (e0, e1) in regions:
        if any(e0 <= l <= e1 for l in lines) and any(h0 <= l <= h1 for h0, h1 in hs for l in lines):
            return True
    return False


def kinds_at(spans, line):
    return sorted(set(k for a, b, k in spans if a <= line <= b)) or ['module-level']


def pick_candidates(rng, cands, k):
    """weighted to many alternatives: >=3-way definitions first, distinct identifiers first."""
    cands = list(cands)
    rng.shuffle(cands)
    seen = set()
    first, later = [], []
    for c in sorted(cands, key=lambda c: (not c.get('inverted'), -min(c['nalt'], 5))):
        (later if c['name'] in seen else first).append(c)
        seen.add(c['name'])
    return (first + later)[:k]


# ---------------------------------------------------------------------------------------------------------------
# request sources

def build_gprog(part, rng, bdir, arg):
    from vf import gen_prog
    from supp.project import Project
    root = os.path.join(bdir, 'gp')
    write_files(root, gen_prog.PROJECT_FILES)
    b = Batch()
    files = dict(gen_prog.PROJECT_FILES)
    b.projects['gp'] = {'roots': [root], 'root': root, 'files': files, 'base': tuple(gen_prog.PROJECT_FILES)}
    proj = Project([root])
    i = 0
    while len(b.requests) < arg['target'] and i < arg['max_cases']:
        mode = 'c02' if rng.random() < 0.5 else 'c01'
        size = rng.choice(('small', 'medium', 'medium'))
        text = gen_prog.generate(rng, mode, size)['text']
        rel = 'app/g%d.py' % i
        i += 1
        part.count('programs_generated')
        filename = os.path.join(root, rel)
        sc = prescan(part, text, filename, proj)
        if sc is None or not sc[1]:
            part.count('programs_without_multiply_bound_read')
            continue
        tree, cands, nme = sc
        files[rel] = text
        write_files(root, {rel: text})
        part.count('programs_used')
        meta = {'source': 'gprog:' + mode, 'own_files': [rel], 'multi_exports': nme}
        for c in pick_candidates(rng, cands, 6):
            b.add('location', 'gp', text, c['pos'], filename, cand=c, **meta)
            if rng.random() < 0.35:
                b.add('assist', 'gp', text, c['pos'], filename, cand=c, **meta)
        b.add('lint', 'gp', text, None, filename, **meta)
        b.add('members', 'gp', module='app.g%d' % (i - 1), mtext=text, **meta)
    return b


def build_gclass(part, rng, bdir, arg):
    from vf import gen_class
    from supp.project import Project
    from supp import assistant
    b = Batch()
    for j in range(arg.get('multiattr', 0)):
        files, reqs, forms = gen_multiattr(rng)
        for f in forms:
            part.hist('multiattr_assignment_shapes', f)
        pid = 'm%d' % j
        root = os.path.join(bdir, pid)
        write_files(root, files)
        part.count('multiattr_projects_generated')
        b.projects[pid] = {'roots': [root], 'root': root, 'files': files}
        meta = {'source': 'gclass-multiattr', 'own_files': None}
        for n, (rel, text, pos, expr) in enumerate(reqs):
            filename = os.path.join(root, rel)
            b.add('location', pid, text, pos, filename, cand={'name': expr, 'what': 'attr:' + expr.split('.')[0]}, **meta)
            if n % 3 == 0:
                b.add('assist', pid, text, pos, filename, cand={'name': expr, 'what': 'attr-completion'}, **meta)
        for rel, text in sorted(files.items()):
            b.add('lint', pid, text, None, os.path.join(root, rel), **meta)
            b.add('members', pid, module=rel[:-3], mtext=text, multi_exports=0, **meta)
    j = 0
    target = len(b.requests) + arg['target']
    while len(b.requests) < target and j < arg['max_cases']:
        p = gen_class.gen_project(rng)
        pid = 'c%d' % j
        j += 1
        root = os.path.join(bdir, pid)
        write_files(root, p['files'])
        part.count('class_projects_generated')
        b.projects[pid] = {'roots': [root], 'root': root, 'files': dict(p['files'])}
        proj = Project([root])
        alltext = '\n'.join(p['files'].values())
        meta = {'source': 'gclass', 'own_files': None}
        for q in p['queries']:
            text, pos = gen_class.query_text(p, q, None)
            filename = os.path.join(root, q['file'])
            b.add('assist', pid, text, pos, filename, cand={'name': q['expr'] + '.', 'what': 'attr-completion:' + q['kind']}, **meta)
            try:    # selection only
                props = assistant.assist(proj, text, pos, filename)[1]
            except Exception:
                part.count('prescan_raised(selection only; C08 business)')
                continue
            plain = [a for a in props if not a.startswith('__')]
            rng.shuffle(plain)
            # attributes assigned in several methods first
            plain.sort(key=lambda a: -min(2, len(re.findall(r'\b(?:self|this)\.%s\s*=[^=]' % re.escape(a), alltext))))
            for attr in plain[:5]:
                t2, p2 = gen_class.query_text(p, q, attr)
                b.add('location', pid, t2, p2, filename, cand={'name': q['expr'] + '.' + attr, 'what': 'attr:' + q['kind']}, **meta)
        for rel, text in sorted(p['files'].items()):
            filename = os.path.join(root, rel)
            sc = prescan(part, text, filename, proj)
            nme = 0
            if sc is not None:
                nme = sc[2]
                for c in pick_candidates(rng, sc[1], 3):
                    b.add('location', pid, text, c['pos'], filename, cand=c, **meta)
            if text.strip():
                b.add('lint', pid, text, None, filename, **meta)
            mod = rel[:-3].replace('/', '.')
            if mod.endswith('.__init__'):
                mod = mod[:-len('.__init__')]
            b.add('members', pid, module=mod, mtext=text, multi_exports=nme, **meta)
    return b


MA_VALUES = ('1', "'s'", '[]', '{}', 'None', '(1, 2)', '2.5', 'True', 'set()', 'object()')


MA_FORMS = ('plain', 'plain', 'if', 'elif', 'try', 'try-else', 'try-else', 'try-full', 'try-full', 'try-finally',
            'for-else', 'while-else', 'with', 'def-then-assign', 'assign-then-def')


def assign_stmts(rng, recv, attrs, ind, depth, forms, same=None):
    """statements assigning recv.<attr> in every clause of one randomly chosen compound statement (try with handlers,
    else and finally; loops with else; with; a nested function defined before / after a plain assignment), clauses
    possibly holding a further compound statement."""
    a = same or rng.choice(attrs)
    i2 = ind + '    '

    def asg(i):
        return [i + '%s.%s = %s' % (recv, a if rng.random() < 0.8 else rng.choice(attrs), rng.choice(MA_VALUES))]

    def sub(i):
        if depth > 0 and rng.random() < 0.3:
            return assign_stmts(rng, recv, attrs, i, depth - 1, forms, a)
        return asg(i)
    form = rng.choice(MA_FORMS)
    forms.append(form)
    if form == 'plain':
        return asg(ind)
    if form == 'if':
        return [ind + 'if flag:'] + sub(i2) + [ind + 'else:'] + sub(i2)
    if form == 'elif':
        return [ind + 'if flag:'] + sub(i2) + [ind + 'elif flag is None:'] + sub(i2) + [ind + 'else:'] + sub(i2)
    if form == 'try':
        return [ind + 'try:'] + sub(i2) + [ind + 'except ValueError:'] + sub(i2)
    if form == 'try-else':
        out = [ind + 'try:'] + (sub(i2) if rng.random() < 0.5 else [i2 + 'flag()'])
        out += [ind + 'except ValueError:'] + sub(i2)
        if rng.random() < 0.4:
            out += [ind + 'except KeyError:'] + sub(i2)
        return out + [ind + 'else:'] + sub(i2)
    if form == 'try-full':
        return ([ind + 'try:'] + sub(i2) + [ind + 'except ValueError:'] + sub(i2) + [ind + 'except KeyError:'] + sub(i2) +
                [ind + 'else:'] + sub(i2) + [ind + 'finally:'] + sub(i2))
    if form == 'try-finally':
        return [ind + 'try:'] + sub(i2) + [ind + 'finally:'] + sub(i2)
    if form == 'for-else':
        return [ind + 'for _i in ():'] + sub(i2) + [ind + 'else:'] + sub(i2)
    if form == 'while-else':
        return [ind + 'while flag:'] + sub(i2) + [i2 + 'flag = None', ind + 'else:'] + sub(i2)
    if form == 'with':
        return [ind + "with open('f') as _f:"] + sub(i2) + asg(ind)
    if form == 'def-then-assign':
        return [ind + 'def _inner():'] + sub(i2) + asg(ind)
    return asg(ind) + [ind + 'def _later():'] + sub(i2) + asg(ind)


def gen_multiattr(rng):
    """small class chains in which the same instance attribute is assigned in several methods (plainly, under
    if/else, in try/except), in the class and in its bases, possibly across two modules.
    -> (files, [(relfile, text, pos, expr), ...])"""
    attrs = ['a', 'b', 'c', 'd'][:rng.randint(2, 4)]
    ncls = rng.randint(1, 3)
    two = ncls > 1 and rng.random() < 0.5
    mods = {'hier.py': [], 'base.py': []}
    names = []
    based = []
    forms = []
    for k in range(ncls):
        cname = 'B%d' % k
        target = 'base.py' if (two and k == 0) else 'hier.py'
        bases = ''
        if k == 2 and not based[1] and rng.random() < 0.6:
            bases = rng.choice(('(B1, B0)', '(B0, B1)'))        # several bases (both orders are valid MROs)
        elif k and rng.random() < (0.5 if k == 1 and ncls == 3 else 0.8):
            prev = names[-1]
            bases = '(%s)' % (prev if not (two and k == 1) else rng.choice(('B0', 'base.B0')))
        based.append(bool(bases))
        lines = ['class %s%s:' % (cname, bases)]
        if rng.random() < 0.4:
            lines.append('    %s = %s' % (rng.choice(attrs), rng.choice(MA_VALUES)))
        for m in range(rng.randint(2, 4)):
            lines.append('    def m%d_%d(self, flag=None):' % (k, m))
            for _ in range(rng.randint(1, 3)):
                lines += assign_stmts(rng, 'self', attrs, '        ', 1, forms)
            lines.append('')
        mods[target].append(lines)
        names.append(cname)
    last = names[-1]
    use = ['    def use(self):'] + ['        self.%s' % a for a in attrs] + ['']
    mods['hier.py'][-1].extend(use)
    head = []
    if two:
        head = ['import base', 'from base import B0', '']
    body = head + [l for blk in mods['hier.py'] for l in blk + ['']]
    body += ['flag = None', 'obj = %s()' % last]
    if rng.random() < 0.5:      # a function defined before the module-level assignments, analysed after them
        body += ['def setup(flag=None):'] + assign_stmts(rng, 'obj', attrs, '    ', 1, forms) + ['']
    for _ in range(rng.randint(1, 3)):
        body += assign_stmts(rng, 'obj', attrs, '', 1, forms)
    if rng.random() < 0.3:
        body += ['def teardown(flag=None):'] + assign_stmts(rng, 'obj', attrs, '    ', 1, forms) + ['']
    body += ['obj.%s' % a for a in attrs]
    files = {'hier.py': '\n'.join(body) + '\n'}
    if two:
        files['base.py'] = '\n'.join(l for blk in mods['base.py'] for l in blk + ['']) + '\n'
    reqs = []
    for ln, line in enumerate(files['hier.py'].split('\n'), 1):
        st = line.strip()
        if re.fullmatch(r'(self|obj)\.[a-d]', st):
            reqs.append(('hier.py', files['hier.py'], (ln, len(line)), st))
    return files, reqs, forms


# --- generated modules for two regions the other generators hardly reach ---------------------------------------

MC_POOL = ('run', 'stop', 'name', 'size', 'value', 'kind')
MC_HELPERS = 'def q():\n    return True\n\n\ndef it():\n    return []\n\n\n'


def gen_multiclass(rng):
    """2-4 classes that define overlapping method / attribute names; variables bound in if/elif/else, try/except and
    loop branches to instances, classes and call results of single-return functions of DIFFERENT ones; in functions
    and at module level; the classes in the same module or imported from another project module.
    -> (files, [(relfile, text, pos, op, expr, forced)])  where each text is the file with one query line in place."""
    ncls = rng.randint(2, 4)
    cnames = ['A', 'B', 'C', 'D'][:ncls]
    shared = rng.sample(MC_POOL, rng.randint(2, 3))
    lib = [MC_HELPERS]
    vals = list(MA_VALUES)
    defines = {}
    for c in cnames:
        own = list(shared)
        if rng.random() < 0.5:
            own.append(rng.choice([x for x in MC_POOL if x not in shared]))
        if rng.random() < 0.3 and len(own) > 2:
            own.remove(rng.choice(shared))          # not every class has every name
        defines[c] = own
        body = ['class %s(object):' % c]
        init = []
        for a in own:
            form = rng.random()
            if form < 0.4:
                body += ['    def %s(self):' % a, '        return %s' % rng.choice(vals), '']
            elif form < 0.8:
                body.append('    %s = %s' % (a, rng.choice(vals)))
            else:
                init.append('        self.%s = %s' % (a, rng.choice(vals)))
        if init:
            body += ['    def __init__(self):'] + init + ['']
        lib += ['\n'.join(body), '\n\n', 'def make_%s():\n    return %s()\n\n\n' % (c, c)]
    libtext = ''.join(lib)
    layout = rng.choice(('same', 'from', 'module'))
    if layout == 'same':
        head, prefix = libtext, ''
    elif layout == 'from':
        head = 'from shapes import q, it, %s\n\n' % ', '.join(cnames + ['make_' + c for c in cnames])
        prefix = ''
    else:
        head, prefix = 'import shapes\nfrom shapes import q, it\n\n', 'shapes.'

    def expr(c):
        k = rng.random()
        return prefix + ('%s()' % c if k < 0.6 else 'make_%s()' % c if k < 0.85 else c)

    units = []          # (lines, placeholder index, var, classes used)
    out = [head]
    lines = head.split('\n')[:-1]
    queries = []
    for u in range(rng.randint(2, 4)):
        var = 'x%d' % u
        infunc = rng.random() < 0.5
        ind = '    ' if infunc else ''
        used = rng.sample(cnames, rng.randint(2, ncls))
        form = rng.choice(('if', 'if', 'try', 'for', 'while'))
        blk = ['def f%d(flag=None):' % u] if infunc else []
        e = [expr(c) for c in used]
        if form == 'if':
            blk.append(ind + 'if q():')
            blk.append(ind + '    %s = %s' % (var, e[0]))
            for x in e[1:-1]:
                blk += [ind + 'elif q():', ind + '    %s = %s' % (var, x)]
            blk += [ind + 'else:', ind + '    %s = %s' % (var, e[-1])]
        elif form == 'try':
            blk += [ind + 'try:', ind + '    %s = %s' % (var, e[0])]
            for x, exc in zip(e[1:], ('ValueError', 'KeyError', 'OSError')):
                blk += [ind + 'except %s:' % exc, ind + '    %s = %s' % (var, x)]
        elif form == 'for':
            blk += [ind + '%s = %s' % (var, e[0]), ind + 'for _i in it():']
            for n, x in enumerate(e[1:]):
                if n:
                    blk += [ind + '    if q():', ind + '        %s = %s' % (var, x)]
                else:
                    blk.append(ind + '    %s = %s' % (var, x))
        else:
            blk += [ind + '%s = %s' % (var, e[0]), ind + 'while q():', ind + '    %s = %s' % (var, e[1])]
            for x in e[2:]:
                blk += [ind + 'if q():', ind + '    %s = %s' % (var, x)]
        lines += blk
        slot = len(lines)
        lines += [ind + 'pass', '', '']
        for a in sorted(set(x for c in used for x in defines[c])):
            k = sum(1 for c in used if a in defines[c])
            queries.append((slot, ind, '%s.%s' % (var, a), 'location', k >= 2))
            queries.append((slot, ind, '%s.%s.' % (var, a), 'assist', False))
        queries.append((slot, ind, '%s.' % var, 'assist', False))
        queries.append((slot, ind, var, 'location', False))
    files = {'user.py': '\n'.join(lines) + '\n'}
    if layout != 'same':
        files['shapes.py'] = libtext
    reqs = []
    for slot, ind, ex, op, forced in queries:
        ql = list(lines)
        ql[slot] = ind + ex
        reqs.append(('user.py', '\n'.join(ql) + '\n', (slot + 1, len(ind + ex)), op, ex, forced))
    return files, reqs


INV_TEMPLATES = (
    ('for-walrus', 'for {n} in it(({n} := v())):\n    v({n})'),
    ('for-listcomp', 'for {n} in [{n} for {n} in it() if {n}]:\n    v({n})'),
    ('for-genexp', 'for {n} in ({n} for {n} in it()):\n    pass'),
    ('for-dictcomp', 'for {n} in {{{n}: 1 for {n} in it()}}:\n    pass'),
    ('for-tuple-walrus', 'for a_, {n} in it(({n} := v())):\n    pass'),
    ('for-lambda-default', 'for {n} in it(lambda {n}=({n} := v()): {n}):\n    pass'),
    ('for-nested', 'for {n} in it():\n    for {n} in it(({n} := v())):\n        pass'),
    ('try-for-walrus', 'try:\n    for {n} in it(({n} := v())):\n        pass\nexcept ValueError:\n    {n} = v()'),
    ('assign-listcomp', 'if q():\n    {n} = [{n} for {n} in it()]'),
    ('assign-setcomp', 'if q():\n    {n} = {{{n} for {n} in it()}}'),
    ('annassign-comp', 'if q():\n    {n}: list = [{n} for {n} in it()]'),
    ('with-walrus', 'if q():\n    with cm(({n} := v())) as {n}:\n        pass\nelse:\n    {n} = v()'),
    ('with-comp', 'if q():\n    with cm([{n} for {n} in it()]) as {n}:\n        pass'),
    ('while-walrus', 'while ({n} := q()):\n    if q():\n        break\n    {n} = v()'),
    ('assign-walrus-value', 'if q():\n    {n} = v(({n} := v()))\nelse:\n    {n} = v()'),
    # the test of a conditional expression is evaluated first although it stands after the body: the name it binds
    # is visible from the start of the expression, the one the body binds only after it (the for/with templates above
    # stopped being inverted when for targets became visible from their own position)
    ('ifexp-test-and-body-walrus', 'v(({n} := v()) if ({n} := q()) else v())'),
    ('ifexp-test-and-body-walrus-in-if', 'if q():\n    v(({n} := v(1)) if ({n} := q()) else v())'),
    ('ifexp-test-and-body-walrus-call', 'v(v(({n} := v())) if v(({n} := q())) else 0)'),
)
INV_HELPERS = ('def v(*a, **k):\n    return object()\n\n\ndef q(*a):\n    return True\n\n\ndef it(*a):\n    return []\n\n\n'
               'class cm(object):\n    def __init__(self, *a):\n        pass\n\n    def __enter__(self):\n        return self\n\n'
               '    def __exit__(self, *a):\n        return False\n\n\n')


def gen_inverted(rng):
    """one statement holding two bindings of the same identifier whose visibility order is the reverse of their
    textual order (walrus / comprehension target inside a for-iterable, a with-item, a while-test, the value of an
    assignment to the same name), joined with other bindings, read after the join; a second module imports the names.
    -> (files, templates used); the requests are found by the pre-scan of inv.py plus the reads in user.py"""
    idents = ['x', 'y', 'z', 'w', 'name', 'item']
    rng.shuffle(idents)
    body = [INV_HELPERS]
    used = []
    exported = []
    for n in idents[:rng.randint(2, 4)]:
        kind, t = rng.choice(INV_TEMPLATES)
        used.append(kind)
        infunc = rng.random() < 0.35
        blk = []
        if rng.random() < 0.4:
            blk.append('if q():\n    {n} = v()'.format(n=n))
        blk.append(t.format(n=n))
        if rng.random() < 0.3:
            blk.append('if q():\n    {n} = v()'.format(n=n))
        blk.append('v({n})\n{n}'.format(n=n))
        text = '\n'.join(blk)
        if infunc:
            text = 'def f_%s():\n' % n + '\n'.join('    ' + l for l in text.split('\n'))
        else:
            exported.append(n)
        body.append(text + '\n\n')
    files = {'inv.py': ''.join(body)}
    if exported:
        files['user.py'] = 'from inv import %s\nimport inv\n%s\n' % (
            ', '.join(exported), '\n'.join('%s\ninv.%s' % (n, n) for n in exported))
    return files, used, exported


ROOT_NAMES = ('src', 'lib', 'root_a', 'root_b', 'vendor', 'app', 'core', 'extras', 'third_party', 'overlay', 'gen',
              'plugins', 'site', 'base', 'common')


def gen_multiroot(rng):
    """a project with 2-4 source roots in which the same module / package / sub-module name exists in several roots
    with different contents, and requests whose answers show which root was used.
    -> (root specs [(subdir, 'abs'|'rel')], files {relpath under the case dir: text}, [(text, pos, op, expr)])"""
    n = rng.randint(2, 4)
    names = rng.sample(ROOT_NAMES, n)
    if rng.random() < 0.4:
        names = ['%s%d' % (x, rng.randrange(100)) for x in names]
    specs = [(x, 'rel' if rng.random() < 0.4 else 'abs') for x in names]
    files = {}

    def holders():
        return sorted(rng.sample(range(n), rng.randint(2, n)))
    sh = holders()
    for k in sh:
        files['%s/shared.py' % names[k]] = ('# shared, copy %d\n' % k + '\n' * k +
                                            'def handler():\n    return %d\n\n\nonly_%d = %d\ncommon_value = %r\n\n\n'
                                            'class Shared%d(object):\n    origin = %d\n' % (k, k, k, names[k], k, k))
    pk = holders()
    for k in pk:
        files['%s/pkg/__init__.py' % names[k]] = '# pkg, copy %d\n' % k + '\n' * k + 'origin = %d\nonly_pkg_%d = %d\n' % (k, k, k)
        files['%s/pkg/sub_%d.py' % (names[k], k)] = 'here = %d\n' % k
        files['%s/pkg/common.py' % names[k]] = '\n' * k + 'value = %d\n\n\ndef only_common_%d():\n    return %d\n' % (k, k, k)
    ut = holders()
    for i, k in enumerate(ut):          # the same name as a module in some roots and as a package in others
        if (i + k) % 2:
            files['%s/util.py' % names[k]] = '\n' * k + 'marker = %d\nas_module_%d = 1\n' % (k, k)
        else:
            files['%s/util/__init__.py' % names[k]] = '\n' * k + 'marker = %d\nas_package_%d = 1\n' % (k, k)
    # module / sub-package names that are equal up to case, in one directory and across roots
    pools = [('Config', 'config', 'CONFIG', 'cOnfig'), ('Queue', 'queue', 'QUEUE'), ('Handlers', 'handlers', 'HANDLERS'),
             ('Io_', 'io_', 'IO_'), ('Types_', 'types_', 'TYPES_')]
    ck = sorted(rng.sample(range(n), rng.randint(1, min(2, n))))
    for k in ck:
        files['%s/cased/__init__.py' % names[k]] = 'origin = %d\n' % k
        for pool in rng.sample(pools, rng.randint(2, 3)):
            for nm in rng.sample(pool, rng.randint(2, min(4, len(pool)))):
                if rng.random() < 0.3:
                    files['%s/cased/%s/__init__.py' % (names[k], nm)] = 'kind = "package"\n'
                    for sub in rng.sample(pools[0], 2):
                        files['%s/cased/%s/%s.py' % (names[k], nm, sub)] = 'leaf = 1\n'
                else:
                    files['%s/cased/%s.py' % (names[k], nm)] = 'kind = "module"\nname = %r\n' % nm
    top = rng.choice((('Settings', 'settings', 'SETTINGS'), ('Local', 'local_', 'LOCAL_', 'Local_')))
    top = [x for x in top if not x.endswith('_')] if top[0] == 'Settings' else [x for x in top if x != 'Local']
    for nm in rng.sample(top, rng.randint(2, len(top))):
        files['%s/%s.py' % (names[rng.randrange(n)], nm)] = 'top = %r\n' % nm
    nested = sorted(set(f.split('/')[2] for f in files if f.count('/') == 3 and '/cased/' in f and f.endswith('/__init__.py')))
    for k in range(n):
        files.setdefault('%s/unique_%d.py' % (names[k], k), 'u = %d\n' % k)
    star = ('from shared import *\nfrom pkg.common import *\nimport os\nprint(handler, value, %s, %s)\n' % (
        ', '.join('only_%d' % k for k in sh), ', '.join('only_common_%d' % k for k in pk)))
    files['work/main.py'] = star
    reqs = [
        ('import shared\nshared.\n', (2, 7), 'assist', 'shared.'),
        ('import shared\nshared.handler\n', (2, 14), 'location', 'shared.handler'),
        ('import shared\nshared.common_value\n', (2, 19), 'location', 'shared.common_value'),
        ('from shared import \n', (1, 19), 'assist', 'from shared import |'),
        ('from shared import handler\nhandler\n', (1, 26), 'location', 'from shared import handler|'),
        ('from shared import handler\nhandler\n', (2, 7), 'location', 'handler (imported from shared)'),
        ('import pkg.\n', (1, 11), 'assist', 'import pkg.|'),
        ('from pkg import \n', (1, 16), 'assist', 'from pkg import |'),
        ('import pkg\npkg.\n', (2, 4), 'assist', 'pkg.'),
        ('import pkg\npkg.origin\n', (2, 10), 'location', 'pkg.origin'),
        ('import pkg.common\npkg.common.\n', (2, 11), 'assist', 'pkg.common.'),
        ('import pkg.common\npkg.common.value\n', (2, 16), 'location', 'pkg.common.value'),
        ('from pkg import common\ncommon.value\n', (2, 12), 'location', 'common.value'),
        ('from pkg.common import value\nvalue\n', (2, 5), 'location', 'value (from pkg.common)'),
        ('import util\nutil.\n', (2, 5), 'assist', 'util.'),
        ('import util\nutil.marker\n', (2, 11), 'location', 'util.marker'),
        ('import \n', (1, 7), 'assist', 'import |'),
        ('from \n', (1, 5), 'assist', 'from |'),
        ('import cased.\n', (1, 13), 'assist', 'import cased.|'),
        ('from cased.\n', (1, 11), 'assist', 'from cased.|'),
        ('from cased import \n', (1, 18), 'assist', 'from cased import |'),
        ('import os\nimport cased.\n', (2, 13), 'assist', 'import cased.| (second line)'),
        (star, None, 'lint', 'lint of star imports'),
    ]
    for nm in nested[:2]:
        reqs.append(('import cased.%s.\n' % nm, (1, len('import cased.%s.' % nm)), 'assist', 'import cased.<Pkg>.|'))
        reqs.append(('from cased.%s import \n' % nm, (1, len('from cased.%s import ' % nm)), 'assist', 'from cased.<Pkg> import |'))
    return specs, files, reqs


def build_gextra(part, rng, bdir, arg):
    from supp.project import Project
    b = Batch()
    for j in range(arg['multiclass']):
        files, reqs = gen_multiclass(rng)
        pid = 'k%d' % j
        root = os.path.join(bdir, pid)
        write_files(root, files)
        part.count('multiclass_projects_generated')
        b.projects[pid] = {'roots': [root], 'root': root, 'files': files}
        meta = {'source': 'gmulticlass', 'own_files': None}
        for rel, text, pos, op, ex, forced in reqs:
            b.add(op, pid, text, pos, os.path.join(root, rel), force_domain=forced,
                  cand={'name': ex, 'what': 'attr-of-multi' if '.' in ex else 'name', 'nalt': 2 if forced else 0}, **meta)
        for rel, text in sorted(files.items()):
            b.add('lint', pid, text, None, os.path.join(root, rel), **meta)
            b.add('members', pid, module=rel[:-3], mtext=text, multi_exports=0, **meta)
    for j in range(arg.get('multiroot', 0)):
        specs, files, reqs = gen_multiroot(rng)
        pid = 'r%d' % j
        root = os.path.join(bdir, pid)
        write_files(root, files)
        roots = [os.path.join(root, d) if kind == 'abs' or os.getcwd() != core.VERIF
                 else os.path.relpath(os.path.join(root, d), core.VERIF) for d, kind in specs]
        part.count('multi_root_projects_generated')
        part.hist('multi_root_count', len(roots))
        for r in roots:
            part.hist('multi_root_string_kind', 'absolute' if os.path.isabs(r) else 'relative')
        b.projects[pid] = {'roots': roots, 'root': root, 'files': files, 'root_specs': [list(x) for x in specs]}
        meta = {'source': 'gmultiroot', 'own_files': None}
        filename = os.path.join(root, 'work', 'main.py')
        for text, pos, op, ex in reqs:
            b.add(op, pid, text, pos, filename, force_domain=True, cand={'name': ex, 'what': 'multi-root', 'nalt': 2},
                  case_collision=('cased' in ex or ex in ('import |', 'from |')), **meta)
        for mod in ('shared', 'pkg', 'pkg.common', 'util'):
            b.add('members', pid, module=mod, mtext=json.dumps([mod, sorted(files.items())]), multi_exports=0,
                  cand={'name': mod, 'what': 'multi-root', 'nalt': 2}, **meta)
    for j in range(arg['inverted']):
        files, used, exported = gen_inverted(rng)
        pid = 'i%d' % j
        root = os.path.join(bdir, pid)
        write_files(root, files)
        part.count('inverted_visibility_projects_generated')
        for k in used:
            part.hist('inverted_visibility_templates', k)
        b.projects[pid] = {'roots': [root], 'root': root, 'files': files}
        proj = Project([root])
        meta = {'source': 'ginverted', 'own_files': None}
        text = files['inv.py']
        filename = os.path.join(root, 'inv.py')
        sc = prescan(part, text, filename, proj)
        nme = 0
        if sc is not None:
            nme = sc[2]
            for n, c in enumerate(pick_candidates(rng, [c for c in sc[1] if c['what'] == 'name'], 10)):
                b.add('location', pid, text, c['pos'], filename, cand=c, **meta)
                if n % 3 == 0:
                    b.add('assist', pid, text, c['pos'], filename, cand=c, **meta)
        b.add('lint', pid, text, None, filename, **meta)
        b.add('members', pid, module='inv', mtext=text, multi_exports=nme, **meta)
        if 'user.py' in files:
            utext = files['user.py']
            ufile = os.path.join(root, 'user.py')
            ulines = utext.split('\n')
            col = len('from inv import ')
            for n in exported:          # the imported names on the import line, then the reads
                b.add('location', pid, utext, (1, col + len(n)), ufile, force_domain=True,
                      cand={'name': 'from inv import ' + n, 'what': 'import-of-multi', 'nalt': 2}, **meta)
                col += len(n) + 2
            for ln, line in enumerate(ulines[2:], 3):
                if line:
                    b.add('location', pid, utext, (ln, len(line)), ufile, force_domain=True,
                          cand={'name': line, 'what': 'import-of-multi' if '.' not in line else 'attr-of-module',
                                'nalt': 2}, **meta)
            b.add('members', pid, module='user', mtext=utext, multi_exports=0, **meta)
    return b


def _module_name(path, root):
    rel = os.path.relpath(path, root)
    if rel.startswith('..') or not rel.endswith('.py'):
        return None
    parts = rel[:-3].split(os.sep)
    if parts[-1] == '__init__':
        parts.pop()
    if not parts or not all(x.isidentifier() for x in parts):
        return None
    return '.'.join(parts)


def build_real(part, rng, bdir, arg):
    from supp.project import Project
    b = Batch()
    std = corpus.stdlib_root()
    roots = {'std': std, 'repo': core.REPO}
    scan_projects = {}
    budget = arg['byte_budget']
    for path in arg['files']:
        text = corpus.read_text(path)
        if text is None:
            part.count('real_files_unreadable')
            continue
        if len(text) > arg['max_bytes']:
            part.count('real_files_skipped_too_large_for_tier')
            continue
        pid = 'repo' if os.path.abspath(path).startswith(core.REPO + os.sep) else 'std'
        if pid not in b.projects:
            b.projects[pid] = {'roots': [roots[pid]], 'root': None, 'files': None}
            scan_projects[pid] = Project([roots[pid]])
        part.count('real_files')
        sc = prescan(part, text, path, scan_projects[pid])
        meta = {'source': 'real:' + pid, 'own_files': None}
        nme = 0
        nreq = max(3, min(12, budget // max(1, len(text))))
        if sc is not None:
            tree, cands, nme = sc
            names = [c for c in cands if c['what'] == 'name']
            attrs = [c for c in cands if c['what'] == 'self-attr']
            through = [c for c in cands if c['what'] == 'attr-of-multi']
            chosen = (pick_candidates(rng, names, nreq) + pick_candidates(rng, attrs, max(1, nreq // 4)) +
                      pick_candidates(rng, through, max(1, nreq // 3)))
            if not chosen:
                part.count('real_files_without_multiply_bound_read')
            for n, c in enumerate(chosen):
                b.add('location', pid, text, c['pos'], path, cand=c, **meta)
                if n % 4 == 0 and c['what'] == 'name':
                    b.add('assist', pid, text, c['pos'], path, cand=c, **meta)
        b.add('lint', pid, text, None, path, **meta)
        mod = _module_name(path, roots[pid])
        if mod:
            b.add('members', pid, module=mod, mtext=text, multi_exports=nme, **meta)
    return b


# ---------------------------------------------------------------------------------------------------------------
# domain, predicate, classification

def nested_lists(ans):
    r = ans.get('r')
    return [x for x in r if isinstance(x, list)] if isinstance(r, list) else []


def in_domain(req, meta, ans):
    """the property's quantifier: answers with more than one alternative / more than one element."""
    if 'exc' in ans:
        # no answer to count: kept only where the selection scan saw a multiply-bound name (type compared)
        return req['op'] == 'location' and (bool(meta.get('force_domain')) or
                                            (bool(meta.get('cand')) and meta['cand'].get('nalt', 0) >= 2))
    r = ans['r']
    if req['op'] == 'location':
        if any(len(x) >= 2 for x in nested_lists(ans)):
            return True
        # an attribute reached through a multiply-bound name (x.attr, x bound to values of several classes) or an
        # import of a multiply-bound module member: the single entry reported is a pick among several alternatives
        c = meta.get('cand') or {}
        return bool(r) and (bool(meta.get('force_domain')) or (c.get('what') == 'attr-of-multi' and c.get('nalt', 0) >= 2))
    if req['op'] == 'assist':
        return len(r[1]) > 1
    if req['op'] == 'lint':
        return len(r) > 1
    if req['op'] == 'members':
        return len(r['names']) > 1
    return False


def _key(entry):
    loc = entry.get('loc') if isinstance(entry, dict) else None
    if not loc:
        return (0, 0)
    return (loc[0], loc[1])


def source_order_defects(ans):
    """-> (lists evaluated, [offending nested list, ...]); per file, positions must not decrease."""
    bad = []
    lists = nested_lists(ans)
    for lst in lists:
        last = {}
        for e in lst:
            f = e.get('file') if isinstance(e, dict) else None
            k = _key(e)
            if f in last and k < last[f]:
                bad.append(lst)
                break
            last[f] = k
    return len(lists), bad


def _flat(r):
    out = []
    for x in r:
        if isinstance(x, list):
            out.extend(json.dumps(e, sort_keys=True) for e in x)
        else:
            out.append(json.dumps(x, sort_keys=True))
    return out


def classify(op, answers, what=''):
    """mechanism label from WHAT differs between the distinct answers of one request (and what kind of request it is)."""
    excs = [a.get('exc') for a in answers]
    if any(excs):
        if all(excs):
            return op + '-exception-type-varies'
        return op + '-raises-in-some-runs-only'
    rs = [a['r'] for a in answers]
    if what == 'multi-root':
        generic = classify(op, answers, '')
        if generic in ('location-content-differs', 'assist-proposals-vary', 'lint-rows-vary', 'module-members-vary',
                       'module-member-definition-varies', 'module-members-content-differs'):
            return '%s-answer-from-different-source-root' % {'members': 'module-members'}.get(op, op)
        return generic
    if op == 'location':
        shapes = set(tuple(len(x) if isinstance(x, list) else -1 for x in r) for r in rs)
        if len(shapes) == 1:
            inner_only = True
            for col in zip(*rs):
                if isinstance(col[0], list):
                    if len(set(tuple(sorted(json.dumps(e, sort_keys=True) for e in x)) for x in col)) != 1:
                        inner_only = False
                elif len(set(json.dumps(x, sort_keys=True) for x in col)) != 1:
                    inner_only = False
            if inner_only:
                return 'location-alternatives-order-varies'
        if len(set(tuple(sorted(_flat(r))) for r in rs)) == 1:
            return 'location-entries-order-varies'
        if what == 'attr-of-multi':
            return 'location-attribute-through-multiply-bound-name-varies'
        if what == 'import-of-multi':
            return 'location-import-of-multiply-bound-member-varies'
        return 'location-content-differs'
    if op == 'assist':
        if len(set(r[0] for r in rs)) != 1:
            return 'assist-prefix-varies'
        if len(set(tuple(sorted(r[1])) for r in rs)) == 1:
            return 'assist-proposals-order-varies'
        if what == 'attr-of-multi':
            return 'assist-attribute-through-multiply-bound-name-varies'
        return 'assist-proposals-vary'
    if op == 'lint':
        if len(set(tuple(sorted(json.dumps(x) for x in r)) for r in rs)) == 1:
            return 'lint-rows-order-varies'
        return 'lint-rows-vary'
    if op == 'members':
        if len(set(tuple(sorted(r['names'])) for r in rs)) != 1 or len(set(tuple(sorted(r['attrs'])) for r in rs)) != 1:
            return 'module-members-vary'
        if len(set(tuple(r['names']) for r in rs)) != 1 or len(set(tuple(r['attrs']) for r in rs)) != 1:
            return 'module-members-order-varies'
        if len(set(json.dumps(sorted(r['defs'])) for r in rs)) != 1:
            return 'module-member-definition-varies'
        return 'module-members-content-differs'
    return 'other'


def make_configs(rng, k):
    """(PYTHONHASHSEED, objects allocated before importing supp, max objects allocated before each request)"""
    def G():
        return int(10 ** rng.uniform(1.0, 5.5))

    def R():
        return str(rng.randrange(3, 2 ** 32))
    if k <= 6:
        cfgs = [('0', 0, 0), ('0', G(), 16), ('1', G(), 0), ('2', G(), 32), ('random', G(), 8), (R(), G(), 16)]
    else:
        cfgs = [('0', 0, 0), ('0', G(), 0), ('0', G(), 32), ('1', 0, 0), ('1', G(), 16), ('1', G(), 0),
                ('2', 0, 0), ('2', G(), 8), ('2', G(), 64), ('random', 0, 0), ('random', G(), 16), ('random', G(), 0)]
        while len(cfgs) < k:
            cfgs.append((R(), G(), rng.choice((0, 8, 32))))
    return cfgs[:k]


def cfg_label(c):
    return 'hashseed=%s,garbage=%d,churn=%d' % c


def run_child(batch_path, out_path, cfg, gseed, timeout=1200):
    env = core.child_env({'PYTHONHASHSEED': cfg[0], 'VF_REPO': core.REPO})
    try:
        p = subprocess.run([core.PY, '-B', CHILD, batch_path, out_path, str(cfg[1]), gseed, str(cfg[2])],
                           env=env, cwd=core.VERIF, timeout=timeout, stdout=subprocess.DEVNULL, stderr=subprocess.PIPE)
    except subprocess.TimeoutExpired:
        return None, 'watchdog %ds' % timeout
    if p.returncode != 0 or not os.path.exists(out_path):
        return None, 'rc=%s %s' % (p.returncode, p.stderr.decode('utf-8', 'replace')[-600:])
    with open(out_path) as f:
        d = json.load(f)
    os.unlink(out_path)
    if not d['supp'].startswith(core.REPO + os.sep):
        return None, 'child imported supp from %s' % d['supp']
    return d['out'], None


def varies_with(runs):
    """runs: [(cfg, out)] -> which varied factor explains the difference (description only, not part of the label)."""
    by = collections.defaultdict(set)
    for cfg, o in runs:
        if cfg[0] != 'random':
            by[cfg[0]].add(o)
    if any(len(v) > 1 for v in by.values()):
        return 'differs between processes with the SAME hash seed (address/allocation dependent)'
    if len(by) > 1:
        return 'equal within every fixed hash seed, differs between hash seeds'
    return 'undetermined'


def _short(s, n=260):
    return s if len(s) <= n else s[:n] + '...'


def _describe(b, i):
    r = b.requests[i]
    m = b.meta[i]
    c = m.get('cand') or {}
    if r['op'] == 'members':
        return 'members of module %s (%s)' % (r['module'], m.get('source'))
    where = os.path.basename(r.get('filename') or '?')
    if r['op'] == 'lint':
        return 'lint of %s (%s)' % (where, m.get('source'))
    return '%s at %s of %r in %s (%s)' % (r['op'], tuple(r['pos']), c.get('name'), where, m.get('source'))


def compare_batch(part, b, passes, runs, spans_of):
    """passes: [('pass-A', out), ('pass-B', out)] same process; runs: [(cfg, out)] fresh processes."""
    for i, req in enumerate(b.requests):
        op = req['op']
        m = b.meta[i]
        part.count('requests')
        part.hist('requests_by_op', op)
        part.hist('requests_by_source', (m.get('source') or '?').split(':')[0] + ':' + op)
        outs = [o[i] for _, o in passes] + [o[i] for _, o in runs]
        distinct = sorted(set(outs))
        answers = [json.loads(o) for o in distinct]
        first = json.loads(outs[0])
        nontrivial = False
        if 'exc' in first:
            part.count('requests_answered_by_exception(type compared)')
            part.hist('exception_types', '%s:%s' % (op, first['exc']))
        what = (m.get('cand') or {}).get('what', '').split(':')[0]
        if what == 'attr-of-multi' and (op == 'assist' or m.get('force_domain') or (m.get('cand') or {}).get('nalt', 0) >= 2):
            part.count('requests_attribute_through_multiply_bound_name')
            part.hist('attribute_through_multiply_bound_name', '%s:%s' % ((m.get('source') or '?').split(':')[0], op))
            if m.get('force_domain'):
                part.count('requests_attribute_defined_by_2+_alternative_classes')
                nontrivial = True
        elif what == 'import-of-multi':
            part.count('requests_import_of_multiply_bound_member')
            nontrivial = True
        elif what == 'multi-root':
            part.count('requests_on_module_present_in_several_roots')
            if m.get('case_collision') and 'r' in first and op == 'assist':
                low = collections.Counter(x.lower() for x in first['r'][1])
                if any(v > 1 for v in low.values()):
                    part.count('assist_requests_listing_names_equal_up_to_case')
                    part.hist('case_collisions_per_listing', min(8, sum(1 for v in low.values() if v > 1)))
            part.hist('multi_root_requests', '%s:%s' % (op, (m.get('cand') or {}).get('name')))
            nontrivial = True
        if op == 'location':
            nl = nested_lists(first)
            if any(len(x) >= 2 for x in nl):
                part.count('requests_multi_alternative')
                nontrivial = True
                if (m.get('cand') or {}).get('inverted'):
                    part.count('multi_alternative_requests_with_inverted_visibility_order')
                for x in nl:
                    part.hist('alternatives_per_list', min(len(x), 8))
                    if len(x) >= 3:
                        part.count('alternative_lists_3+')
                sp = spans_of(req)
                if sp is not None:
                    sp, regions = sp
                    ks = set()
                    for x in nl:
                        own = [e['loc'][0] for e in x if e.get('file') == req['filename'] and e.get('loc')]
                        for l in own:
                            ks.update(kinds_at(sp, l))
                        if spans_handler_and_else(regions, own):
                            part.count('alternative_lists_spanning_except_handler_and_try_else')
                            part.hist('lists_spanning_handler_and_else', what or '?')
                    for k in ks:
                        part.hist('alternative_bound_inside', k)
                part.hist('multi_alternative_what', (m.get('cand') or {}).get('what', '?').split(':')[0])
            if len(first.get('r') or []) > 1:
                part.count('location_answers_with_chain(import or attribute hops)')
        elif op == 'members':
            part.count('module_member_requests')
            if 'r' in first:
                part.hist('module_kind', first['r']['kind'])
                part.hist('module_members', min(len(first['r']['names']) // 10 * 10, 200))
            if m.get('multi_exports'):
                part.count('module_member_requests_with_multiply_bound_export')
                nontrivial = True
        elif op == 'assist':
            part.count('assist_requests')
        elif op == 'lint':
            part.count('lint_requests')
        key = hashlib.md5(json.dumps([op, req.get('pos'), req.get('module'),
                                      b.texts[req['text']] if 'text' in req else m.get('mtext')]).encode()).hexdigest()[:16]
        part.case(key, nontrivial=nontrivial and len(runs) >= 2)
        # (c) the ordering predicate, on every distinct answer seen
        if op == 'location':
            for o, a in zip(distinct, answers):
                n, bad = source_order_defects(a)
                part.count('ordering_predicate_evaluations', n)
                if bad:
                    case = b.case_of(i)
                    case.update({'check': 'source-order', 'answer': a, 'offending': bad[0]})
                    part.violation('location-%s-alternatives-not-source-order' % (
                                       'name' if what in ('name', 'import-of-multi') else 'attribute'),
                                   '%s: alternatives listed as %s - not in source order' % (
                                       _describe(b, i), [e.get('loc') for e in bad[0]]), case)
                    break
        # (a) two passes in one process
        if len(passes) == 2:
            part.count('same_process_pairs_compared')
            pa, pb = passes[0][1][i], passes[1][1][i]
            if pa != pb:
                mech = classify(op, [json.loads(pa), json.loads(pb)], what)
                case = b.case_of(i)
                case.update({'check': 'same-process', 'outputs': {'pass-A': pa, 'pass-B': pb}})
                part.violation(mech, '%s: two passes over the same batch in ONE process answer differently: %s  vs  %s' % (
                    _describe(b, i), _short(pa), _short(pb)), case)
            else:
                part.count('same_process_pairs_identical')
        # (b) fresh processes
        if len(runs) >= 2:
            pouts = [o[i] for _, o in runs]
            part.count('cross_process_comparisons', len(pouts) - 1)
            pd = sorted(set(pouts))
            if len(pd) > 1:
                mech = classify(op, [json.loads(o) for o in pd], what)
                groups = collections.OrderedDict()
                for cfg, o in runs:
                    groups.setdefault(o[i], []).append(cfg_label(cfg))
                case = b.case_of(i)
                case.update({'check': 'across-processes', 'configs': [list(c) for c, _ in runs],
                             'outputs': {cfg_label(c): o[i] for c, o in runs},
                             'varies_with': varies_with([(c, o[i]) for c, o in runs])})
                part.violation(mech, '%s: %d distinct answers in %d fresh processes (%s): %s' % (
                    _describe(b, i), len(pd), len(runs), case['varies_with'],
                    ' | '.join('%s -> %s' % (v[0], _short(k, 200)) for k, v in list(groups.items())[:3])), case)
            else:
                part.count('requests_identical_in_all_processes')
                if nontrivial:
                    part.count('multi_alternative_requests_identical_in_all_processes')


def repo_fingerprint():
    """the code under test and the repository files used as inputs must not change while a batch is compared."""
    h = hashlib.md5()
    for p in corpus.repo_files():
        try:
            with open(p, 'rb') as f:
                h.update(p.encode() + b'\0' + f.read() + b'\0')
        except OSError:
            h.update(p.encode() + b'\0<unreadable>')
    return h.hexdigest()


def run_batch(part, rng, batch, bdir, arg, tag):
    if not batch.requests:
        part.count('batches_empty')
        return
    fp0 = repo_fingerprint()
    # pass 0: selection - evaluate every candidate once and keep the property's domain
    out0 = child.evaluate(batch.data())
    keep = []
    for i, o in enumerate(out0):
        part.count('candidate_requests')
        if in_domain(batch.requests[i], batch.meta[i], json.loads(o)):
            keep.append(i)
        else:
            part.count('filtered_out_of_domain(single alternative / single element)')
            part.hist('filtered_out_by_op', batch.requests[i]['op'])
    b = batch.subset(keep)
    if not b.requests:
        part.count('batches_empty')
        return
    part.count('batches')
    data = b.data()
    pass_a = child.evaluate(data)
    held = child.make_garbage(rng.randrange(2000, 80000), 'inproc:%s' % tag)
    pass_b = child.evaluate(data, churn=24, churn_seed='inproc:%s' % tag)
    del held
    batch_path = os.path.join(bdir, 'batch.json')
    with open(batch_path, 'w') as f:
        json.dump(data, f)
    runs = []
    for ci, cfg in enumerate(make_configs(rng, arg['children'])):
        out, err = run_child(batch_path, os.path.join(bdir, 'out%d.json' % ci), cfg, '%s:%d' % (tag, ci))
        if out is None or len(out) != len(b.requests):
            part.inconclusive.append('child %s of batch %s failed: %s' % (cfg_label(cfg), tag, err or 'wrong length'))
            part.count('children_failed')
            continue
        part.count('children')
        part.hist('child_config', cfg_label(cfg))
        part.hist('child_hashseed', cfg[0] if cfg[0] in ('0', '1', '2', 'random') else 'drawn number')
        part.hist('child_garbage_magnitude', '0' if not cfg[1] else '1e%d' % (len(str(cfg[1])) - 1))
        runs.append((cfg, out))
    if repo_fingerprint() != fp0:
        # somebody edited $VF_REPO while the processes of this batch were running: "identical project files" does
        # not hold for it, nothing is compared
        part.count('batches_discarded($VF_REPO changed while the batch ran)')
        return
    cache = {}

    def spans_of(req):
        t = req.get('text')
        if t is None:
            return None
        if t not in cache:
            try:
                tree = ast.parse(b.texts[t])
                cache[t] = (enclosing_index(tree), try_regions(tree))
            except (SyntaxError, ValueError, RecursionError):
                cache[t] = None
        return cache[t]
    compare_batch(part, b, [('pass-A', pass_a), ('pass-B', pass_b)], runs, spans_of)
    if b.requests:
        i = rng.randrange(len(b.requests))
        part.sample({'request': _describe(b, i), 'answer': _short(pass_a[i], 400), 'processes': len(runs),
                     'configs': [cfg_label(c) for c, _ in runs]}, limit=1)


def work(arg):
    part = core.Part()
    kind = arg['kind']
    tag = '%s:%s:%s' % (arg['seed'], kind, arg['index'])
    rng = random.Random('%s:C17:%s' % (arg['seed'], tag))
    bdir = os.path.join(arg['tmp'], '%s%d' % (kind, arg['index']))
    os.makedirs(bdir)
    try:
        if kind == 'gprog':
            batch = build_gprog(part, rng, bdir, arg)
        elif kind == 'gclass':
            batch = build_gclass(part, rng, bdir, arg)
        elif kind == 'gextra':
            batch = build_gextra(part, rng, bdir, arg)
        else:
            batch = build_real(part, rng, bdir, arg)
        run_batch(part, rng, batch, bdir, arg, tag)
    finally:
        shutil.rmtree(bdir, ignore_errors=True)
    return part.dump()


# ---------------------------------------------------------------------------------------------------------------

RULE = ('case = one request (operation, text, position / module) in the property\'s domain: a location() answer that '
        'contains a list of >= 2 alternative definitions, an assist() answer with > 1 proposals, a lint() answer with '
        '> 1 rows, a module with > 1 members; every case is answered twice in one process and once in each of 6/16 '
        'fresh processes with different PYTHONHASHSEED / prior allocation, outputs compared byte-wise, the ordering '
        'predicate evaluated on every distinct location answer.  non-trivial = a location() answer with a list of >= 2 '
        'alternative definitions, an attribute reached through a name bound to instances of >= 2 classes that define '
        'it, an import of a multiply-bound module member, or the members of a module in which at least one '
        'module-level name is multiply bound, compared over >= 2 fresh processes; distinct by (operation, text, '
        'position/module).  location() answers without a list are in the domain only for those attribute / import requests')


def main(run):
    tmp = tempfile.mkdtemp(prefix='vf-c17-')
    try:
        k = run.pick(6, 16)
        args = []
        files = corpus.select(run, 40, 260)
        rng = run.rng('files')
        rng.shuffle(files)
        per = run.pick(4, 5)
        for n, chunk in enumerate(core.chunks(files, per)):
            args.append({'kind': 'real', 'index': n, 'files': chunk, 'byte_budget': run.pick(250000, 400000),
                         'max_bytes': run.pick(90000, 160000)})
        for n in range(run.pick(10, 40)):
            args.append({'kind': 'gprog', 'index': n, 'target': 200, 'max_cases': 70})
        for n in range(run.pick(6, 14)):
            args.append({'kind': 'gclass', 'index': n, 'target': 900, 'max_cases': 14, 'multiattr': 12})
        for n in range(run.pick(4, 12)):
            args.append({'kind': 'gextra', 'index': n, 'multiclass': 10, 'inverted': 14, 'multiroot': 10})
        for a in args:
            a.update({'seed': run.seed, 'tmp': tmp, 'children': k})
        core.run_parts(run, 'vf.props.c17:work', args, timeout=2400)
    finally:
        shutil.rmtree(tmp, ignore_errors=True)
    run.counters['distinct_hashseed_garbage_configurations'] = len(run.hists.get('child_config', {}))
    return run.finish(
        rule=RULE,
        require=('requests', 'requests_multi_alternative', 'alternative_lists_3+', 'children',
                 'distinct_hashseed_garbage_configurations', 'cross_process_comparisons',
                 'same_process_pairs_compared', 'ordering_predicate_evaluations', 'module_member_requests',
                 'requests_attribute_defined_by_2+_alternative_classes', 'requests_import_of_multiply_bound_member',
                 'multi_alternative_requests_with_inverted_visibility_order',
                 'alternative_lists_spanning_except_handler_and_try_else',
                 'requests_on_module_present_in_several_roots', 'assist_requests_listing_names_equal_up_to_case',
                 'module_member_requests_with_multiply_bound_export', 'assist_requests', 'lint_requests'),
        assumptions=[
            'every process that evaluates a batch sees the same request sequence on Project objects created at first use, '
            'so cache histories are identical (history dependence is C04/C09\'s business)',
            'an exception is an answer identified by its type; whether a call may raise is C08\'s business',
            'source order is judged on the positions supp reports (whether they point at the identifier is C11\'s business); '
            'entries without a position (0, 0) sort first; positions are compared per file',
            'requests are SELECTED with a pre-scan of supp\'s own name tables; the verdict uses only the public answers',
            'PYTHONHASHSEED=random children make a failing comparison non-reproducible bit for bit; the replay file keeps all outputs',
        ],
        exhaustive=False)


def replay(run, path):
    with open(path) as f:
        data = json.load(f)
    tmp = tempfile.mkdtemp(prefix='vf-c17-')
    part = core.Part()
    try:
        per_mech = collections.Counter()
        chosen = []
        for v in data['violations']:        # a few cases of every mechanism rather than the first 40 of one
            per_mech[v['mech']] += 1
            if per_mech[v['mech']] <= 8 and len(chosen) < 40:
                chosen.append(v)
        for n, v in enumerate(chosen):
            c = v['case']
            root = os.path.join(tmp, 'r%d' % n)
            os.makedirs(root)
            b = Batch()
            filename = c.get('filename')
            if c.get('files') is not None:
                write_files(root, c['files'])
                roots = [root]
                if c.get('root_specs'):
                    roots = [os.path.join(root, d) if kind == 'abs' or os.getcwd() != core.VERIF
                             else os.path.relpath(os.path.join(root, d), core.VERIF) for d, kind in c['root_specs']]
                b.projects['p'] = {'roots': roots, 'root': root, 'files': c['files'], 'root_specs': c.get('root_specs')}
                if c.get('filename_rel'):
                    filename = os.path.join(root, c['filename_rel'])
            else:
                b.projects['p'] = {'roots': c['roots'], 'root': None, 'files': None}
            meta = {'source': 'replay:' + str(c.get('source')), 'own_files': None, 'multi_exports': 1,
                    'force_domain': c.get('force_domain'),
                    'cand': {'name': '?', 'nalt': 2, 'what': c.get('what') or 'replay'}}
            b.add(c['op'], 'p', c.get('text'), c.get('pos'), filename, c.get('module'), **meta)
            data1 = b.data()
            pa = child.evaluate(data1)
            held = child.make_garbage(30000, 'replay')
            pb = child.evaluate(data1, churn=24, churn_seed='replay')
            del held
            bp = os.path.join(root, 'batch.json')
            with open(bp, 'w') as f:
                json.dump(data1, f)
            cfgs = [tuple(x) for x in c.get('configs') or []] or make_configs(random.Random('replay'), 6)
            cfgs += make_configs(random.Random('replay:%d' % n), 6)
            runs = []
            for ci, cfg in enumerate(cfgs):
                out, err = run_child(bp, os.path.join(root, 'out%d.json' % ci), cfg, 'replay:%d:%d' % (n, ci))
                if out is None:
                    part.inconclusive.append('replay child failed: %s' % err)
                    continue
                part.count('children')
                part.hist('child_config', cfg_label(cfg))
                runs.append((cfg, out))
            before = len(part.violations)
            compare_batch(part, b, [('pass-A', pa), ('pass-B', pb)], runs, lambda req: None)
            print('replay %d: %s [%s] -> %s' % (n, v['mech'], v['what'][:120],
                                                'reproduced' if len(part.violations) > before else 'NOT reproduced'))
    finally:
        shutil.rmtree(tmp, ignore_errors=True)
    run.merge(part.dump())
    run.counters['distinct_hashseed_garbage_configurations'] = len(run.hists.get('child_config', {}))
    return run.finish(rule='replay of recorded cases: ' + RULE, require=('requests', 'children'), exhaustive=False)
