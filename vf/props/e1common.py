"""Shared driver of the E1-based checks (C01, C02, C03): one worker call = a chunk of generated
programs (or witness files), each executed on all its decision vectors and compared with supp."""
import glob
import json
import os
import random

from vf import core


def work(arg):
    from vf import dynexec, e1check, gen_prog
    from supp.project import Project
    prop = arg['prop']
    part = core.Part()
    proj = dynexec.Project()
    try:
        project = Project([proj.root])
        items = []
        if 'texts' in arg:
            for name, text in arg['texts']:
                items.append((name, text, {'source': name}))
        else:
            for i in range(arg['start'], arg['start'] + arg['count']):
                rng = random.Random('%s:%s:%s:%s:%d' % (arg['seed'], prop, arg['mode'], arg['size'], i))
                p = gen_prog.generate(rng, arg['mode'], arg['size'], arg.get('risky', 2))
                items.append(('%s/%s/%s/%d' % (arg['seed'], arg['mode'], arg['size'], i), p['text'],
                              {'mode': arg['mode'], 'size': arg['size'], 'index': i, 'features': p['features']}))
        for key, text, meta in items:
            proj.write_main(text)
            try:
                pc = e1check.ProgramCheck(text, proj, project, arg['max_paths'], want=(prop,),
                                          assist_budget=arg.get('assist_budget', 60)).run()
            except SyntaxError:
                part.count('programs_not_valid_python(discarded)')
                continue
            for k, v in pc.stats.items():
                part.count(k, v)
            for h, d in pc.hists.items():
                for k, v in d.items():
                    part.hist(h, k, v)
            for f in meta.get('features', ()):
                part.hist('program_features', f)
            nontrivial = _nontrivial(prop, pc)
            part.case(key, nontrivial)
            mine = [v for v in pc.violations if v['prop'] == prop]
            for v in mine:
                case = {'text': text, 'program': key, 'detail': v['detail']}
                part.violation(v['mech'], v['what'], case)
            if 'witness' in arg:
                part.hist('witness_mechs', '%s => %s' % (key, sorted({v['mech'] for v in mine})))
            elif not mine and nontrivial and len(part.samples) < 1 and len(text) < 1500:
                part.sample({'program': key, 'text': text, 'paths': pc.res.paths, 'exhaustive': pc.res.exhaustive})
    finally:
        proj.close()
    return part.dump()


def _nontrivial(prop, pc):
    s = pc.stats
    if prop == 'C01':
        return s.get('C01_successful_read_sites', 0) >= 5 and s.get('paths_executed', 0) >= 2
    if prop == 'C02':
        return s.get('C02_reads_with_2+_observed_sites', 0) >= 1
    return s.get('programs_exhaustive', 0) == 1 and s.get('C03_alternatives_checked', 0) + s.get('C03_definedness_checked', 0) >= 3


def witness_args(prop, max_paths):
    d = os.path.join(core.VERIF, 'witnesses', prop)
    texts = []
    for f in sorted(glob.glob(os.path.join(d, '*.py'))):
        with open(f) as fh:
            texts.append((os.path.basename(f)[:-3], fh.read()))
    if not texts:
        return []
    return [{'prop': prop, 'texts': texts, 'max_paths': max_paths, 'witness': True, 'assist_budget': 200}]


def dispatch(arg):
    import importlib
    fn, a = arg
    mod, _, name = fn.partition(':')
    return getattr(importlib.import_module(mod), name)(a)


def run(run, plan, rule, require, assumptions, extra_jobs=()):
    """plan: list of dict(mode, size, n, risky, max_paths)."""
    prop = run.pid
    args = witness_args(prop, 4096)
    for p in plan:
        chunk = p.get('chunk', 10)
        for s in range(0, p['n'], chunk):
            args.append({'prop': prop, 'seed': run.seed, 'mode': p['mode'], 'size': p['size'], 'start': s,
                         'count': min(chunk, p['n'] - s), 'max_paths': p['max_paths'], 'risky': p.get('risky', 2)})
    jobs = [['vf.props.e1common:work', a] for a in args] + [[fn, a] for fn, a in extra_jobs]
    core.run_parts(run, 'vf.props.e1common:dispatch', jobs, timeout=1800)
    # witnesses of open findings: report the ones that no longer reproduce (not an error)
    wm = run.hists.get('witness_mechs', {})
    for k in wm:
        name, _, mechs = k.partition(' => ')
        if name not in mechs:
            run.notes.append('witness %s no longer reproduces its finding (observed %s)' % (name, mechs))
    run.extra['plan'] = plan
    return run.finish(rule=rule, require=require, assumptions=assumptions, exhaustive=False)


def replay(run, path):
    with open(path) as f:
        data = json.load(f)
    seen = set()
    texts = []
    for v in data['violations']:
        t = v['case']['text']
        if t not in seen:
            seen.add(t)
            texts.append((v['case'].get('program', 'replay%d' % len(texts)), t))
    part = work({'prop': run.pid, 'texts': texts, 'max_paths': 4096, 'assist_budget': 400})
    run.merge(part)
    for v in run.violations:
        print('REPLAYED %s: %s' % (v['mech'], v['what'][:300]))
    print('replayed %d program(s): %d violation(s)' % (len(texts), len(run.violations)))
    return 1 if run.violations else 0
