"""G-layout: layout-only re-printer (used by C13).

Two independent stages, both driven by an explicit random.Random:

  LayoutUnparser   a subclass of the stdlib `ast._Unparser` that prints the same tree but
                   - joins consecutive simple statements with ';'
                   - writes compound statements whose body is made of simple statements on one line
                     (`if x: y = 1; z = 2`, `def f(): return 1`, `class C: pass`, `except E: pass`, ...)
                   - uses another indentation unit (1..8 spaces or a tab; fixed per text or chosen per block)
                   - copies simple statements, and expressions that run over several lines, verbatim from the
                     source text (so that multi-line string tokens - triple-quoted literals, literals
                     concatenated over several lines inside brackets - survive and can be followed by
                     `; next statement` on their last line; the stdlib unparser renders every string on one line)
                   - wraps expressions in redundant parentheses, and the name list of `from m import ...` and
                     the items of `with ... as ...` in their optional ones (which gives stage 2 brackets to
                     break lines in)
  token_pass       a pass over the token stream of any text that leaves every token untouched and only
                   rewrites the white space between tokens:
                   - inside brackets: newline (+ optional comment, blank line) + arbitrary indentation
                   - outside brackets: backslash continuation + arbitrary indentation
                   - extra spaces between tokens / removed spaces next to brackets, commas, '=', ':'
                   - trailing comments, blank lines and comment lines (with arbitrary indentation) after
                     logical lines and after the line breaks inside brackets
                   nothing is changed inside f-strings.

Neither stage promises by construction that the result parses to the same AST (the stdlib unparser has
corner cases of its own); the caller must compare `ast.dump` of both texts and discard a pair that differs
(`same_ast`).  Every stage records which features it really applied in a Counter so that the evidence can
show what the workload contained.
"""
import ast
import collections
import io
import tokenize
import warnings
from contextlib import contextmanager

SIMPLE = (ast.Expr, ast.Assign, ast.AugAssign, ast.AnnAssign, ast.Return, ast.Delete, ast.Pass, ast.Break,
          ast.Continue, ast.Raise, ast.Global, ast.Nonlocal, ast.Import, ast.ImportFrom, ast.Assert) + (
    (ast.TypeAlias,) if hasattr(ast, 'TypeAlias') else ())

WRAPPABLE = (ast.Name, ast.Attribute, ast.Call, ast.BinOp, ast.BoolOp, ast.Compare, ast.UnaryOp, ast.Constant,
             ast.Subscript, ast.List, ast.Tuple, ast.Dict, ast.Set, ast.IfExp, ast.Lambda, ast.ListComp,
             ast.SetComp, ast.DictComp, ast.GeneratorExp)

KEEPABLE = WRAPPABLE + (ast.JoinedStr,)

INDENT_UNITS = [' ', '  ', '   ', '    ', '        ', '\t', '      ']
_NOWRAP_PARENTS = tuple(getattr(ast, n) for n in ('pattern', 'type_param') if hasattr(ast, n))

FEATURES = ('semicolon-joined', 'one-line-compound', 'indent-width', 'redundant-parens', 'bracket-newline',
            'backslash-continuation', 'extra-spaces', 'removed-spaces', 'comment', 'blank-lines', 'source-kept')


def parse_quiet(text, filename='<layout>'):
    with warnings.catch_warnings():
        warnings.simplefilter('ignore')
        return ast.parse(text, filename)


def same_ast(text_a, text_b):
    """True iff both texts parse to the same tree (attributes = positions are not compared)."""
    try:
        return ast.dump(parse_quiet(text_a)) == ast.dump(parse_quiet(text_b))
    except (SyntaxError, ValueError, RecursionError, MemoryError):
        return False


def random_style(rng, only=None):
    """Probabilities of the individual layout choices.  `only` restricts the style to a subset of FEATURES
    (used to attribute a difference to a single layout feature)."""
    st = {
        'p_semi': rng.choice([0.0, 0.15, 0.4, 0.8]),
        'p_inline': rng.choice([0.0, 0.3, 0.6, 1.0]),
        'indent': rng.choice(INDENT_UNITS + ['mixed', '    ']),
        'p_paren': rng.choice([0.0, 0.0, 0.04, 0.12]),
        'p_stmt_parens': rng.choice([0.0, 0.3, 0.8]),
        'p_nl': rng.choice([0.0, 0.05, 0.2, 0.5]),
        'p_bs': rng.choice([0.0, 0.02, 0.08, 0.2]),
        'p_space': rng.choice([0.0, 0.05, 0.2]),
        'p_strip': rng.choice([0.0, 0.0, 0.1, 0.4]),
        'p_tail_comment': rng.choice([0.0, 0.05, 0.2]),
        'p_lines': rng.choice([0.0, 0.05, 0.2]),
        'p_name_comment': rng.choice([0.0, 0.0, 0.15]),
        'p_keep_stmt': rng.choice([0.0, 0.0, 0.3, 0.8]),
        'p_keep_expr': rng.choice([0.0, 0.5, 1.0]),
    }
    if only is not None:
        keep = set(only)
        gate = {'p_semi': 'semicolon-joined', 'p_inline': 'one-line-compound', 'p_paren': 'redundant-parens',
                'p_stmt_parens': 'redundant-parens',
                'p_nl': 'bracket-newline', 'p_bs': 'backslash-continuation', 'p_space': 'extra-spaces',
                'p_strip': 'removed-spaces', 'p_tail_comment': 'comment', 'p_lines': 'blank-lines',
                'p_keep_stmt': 'source-kept', 'p_keep_expr': 'source-kept'}
        strong = {'p_semi': 0.7, 'p_inline': 1.0, 'p_paren': 0.12, 'p_stmt_parens': 0.8, 'p_nl': 0.4, 'p_bs': 0.2, 'p_space': 0.2,
                  'p_strip': 0.4, 'p_tail_comment': 0.2, 'p_lines': 0.2, 'p_keep_stmt': 0.5, 'p_keep_expr': 1.0}
        for k, f in gate.items():
            st[k] = strong[k] if f in keep else 0.0
        if 'comment' in keep:
            st['p_lines'] = max(st['p_lines'], 0.1)
            st['p_name_comment'] = 0.15
        else:
            st['p_name_comment'] = 0.0
        if 'indent-width' not in keep:
            st['indent'] = '    '
        elif st['indent'] == '    ':
            st['indent'] = ' '
    return st


class LayoutUnparser(ast._Unparser):
    """ast._Unparser with randomised layout decisions.  Constructed without rng (as the base class does for
    the inside of f-strings) it behaves exactly like the base class."""

    def __init__(self, rng=None, style=None, source=None, **kw):
        super().__init__(**kw)
        self.rng = rng
        self._src = source.split('\n') if (source is not None and rng is not None) else None
        self.style = style or {}
        self.applied = collections.Counter()
        self._units = []
        self._lead = None
        self._colon = False
        self._nowrap = 0

    # -- statements -------------------------------------------------------------------------
    def fill(self, text=''):
        if self.rng is None:
            return super().fill(text)
        lead, self._lead = self._lead, None
        self._colon = False
        if lead == 'inline':
            self.applied['one-line-compound'] += 1
            self.write(self.rng.choice([' ', ' ', '', '  ']) + text)
        elif lead == 'semi':
            self.applied['semicolon-joined'] += 1
            self.write(self.rng.choice(['; ', '; ', ';', ' ; ']) + text)
        else:
            self.maybe_newline()
            self.write(''.join(self._units) + text)

    @contextmanager
    def block(self, *, extra=None):
        if self.rng is None:
            with super().block(extra=extra):
                yield
            return
        self.write(':')
        if extra:
            self.write(extra)
        self._colon = not extra
        unit = self.style.get('indent', '    ')
        if unit == 'mixed':
            unit = self.rng.choice(INDENT_UNITS)
        if unit != '    ':
            self.applied['indent-width'] += 1
        self._units.append(unit)
        self._indent += 1
        try:
            yield
        finally:
            self._indent -= 1
            self._units.pop()

    def _body(self, stmts, doc=None):
        rng = self.rng
        after_colon, self._colon = self._colon, False
        simple = [isinstance(s, SIMPLE) for s in stmts]
        inline = after_colon and all(simple) and rng.random() < self.style.get('p_inline', 0)
        p_semi = self.style.get('p_semi', 0)
        for i, s in enumerate(stmts):
            if inline:
                lead = 'inline' if i == 0 else 'semi'
            elif i > 0 and simple[i] and simple[i - 1] and rng.random() < p_semi:
                lead = 'semi'
            else:
                lead = None
            self._lead = lead
            seg = None
            if simple[i] and self._src is not None and rng.random() < self.style.get('p_keep_stmt', 0):
                seg = self.segment(s)
            if seg is not None:
                # the statement as its author wrote it (multi-line string tokens, own line breaks, comments)
                self.applied['source-kept-statement'] += 1
                if '\n' in seg:
                    self.applied['source-kept-multi-line'] += 1
                self.fill(seg)
            elif i == 0 and doc is not None:
                self._write_docstring(doc)
            else:
                self.traverse(s)
            self._lead = None

    def segment(self, node):
        """the source text of a node, verbatim (None when unknown)"""
        src = self._src
        l0, l1 = getattr(node, 'lineno', None), getattr(node, 'end_lineno', None)
        if src is None or l0 is None or l1 is None or node.end_col_offset is None or l1 > len(src):
            return None
        c0, c1 = node.col_offset, node.end_col_offset
        if l0 == l1:
            seg = src[l0 - 1][c0:c1]
        else:
            seg = '\n'.join([src[l0 - 1][c0:]] + src[l0:l1 - 1] + [src[l1 - 1][:c1]])
        return seg if seg.strip() else None

    def _write_docstring_and_traverse_body(self, node):
        if self.rng is None:
            return super()._write_docstring_and_traverse_body(node)
        self._body(node.body, self.get_raw_docstring(node))

    def visit_AnnAssign(self, node):
        if self.rng is None:
            return super().visit_AnnAssign(node)
        self.fill()
        with self.delimit_if('(', ')', not node.simple and isinstance(node.target, ast.Name)):
            # '(a).b: T = v' is not accepted as an annotation target
            self._nowrap += 1
            try:
                self.traverse(node.target)
            finally:
                self._nowrap -= 1
        self.write(': ')
        self.traverse(node.annotation)
        if node.value:
            self.write(' = ')
            self.traverse(node.value)

    # -- optional brackets of statements -----------------------------------------------------
    def visit_ImportFrom(self, node):
        if self.rng is None or self.rng.random() >= self.style.get('p_stmt_parens', 0) or any(
                a.name == '*' for a in node.names):
            return super().visit_ImportFrom(node)
        self.applied['statement-parens'] += 1
        self.fill('from ')
        self.write('.' * (node.level or 0))
        if node.module:
            self.write(node.module)
        self.write(' import (')
        self.interleave(lambda: self.write(', '), self.traverse, node.names)
        self.write(self.rng.choice([')', ',)', ', )']))

    def _with(self, head, node):
        if self.rng is None or self.rng.random() >= self.style.get('p_stmt_parens', 0) or not any(
                it.optional_vars is not None for it in node.items):
            return None
        self.applied['statement-parens'] += 1
        self.fill(head + '(')
        self.interleave(lambda: self.write(', '), self.traverse, node.items)
        self.write(self.rng.choice([')', ',)']))
        with self.block(extra=self.get_type_comment(node)):
            self.traverse(node.body)
        return True

    def visit_With(self, node):
        return self._with('with ', node) or super().visit_With(node)

    def visit_AsyncWith(self, node):
        return self._with('async with ', node) or super().visit_AsyncWith(node)

    # -- keep the output ASCII (columns of ast are bytes, of the tokenizer characters) -----------
    def _write_constant(self, value):
        if self.rng is not None and isinstance(value, str) and not value.isascii():
            return self.write(ascii(value))
        return super()._write_constant(value)

    def _write_docstring(self, node):
        if self.rng is not None and not node.value.isascii():
            self.fill()
            if node.kind == 'u':
                self.write('u')
            return self.write(ascii(node.value))
        return super()._write_docstring(node)

    # -- expressions ------------------------------------------------------------------------
    def traverse(self, node):
        rng = self.rng
        if rng is None:
            return super().traverse(node)
        if isinstance(node, list):
            if node and all(isinstance(n, ast.stmt) for n in node):
                return self._body(node)
            for item in node:
                self.traverse(item)
            return
        if isinstance(node, _NOWRAP_PARENTS):
            self._nowrap += 1
            try:
                return ast.NodeVisitor.visit(self, node)
            finally:
                self._nowrap -= 1
        if (self._src is not None and self._nowrap == 0 and isinstance(node, KEEPABLE)
                and (getattr(node, 'end_lineno', None) or 0) > node.lineno
                and isinstance(getattr(node, 'ctx', None) or ast.Load(), ast.Load)
                and rng.random() < self.style.get('p_keep_expr', 0)):
            seg = self.segment(node)
            if seg is not None:
                # an expression that runs over several lines in the source is written as it stands there
                # (the unparser would put a triple-quoted / implicitly concatenated string on one line)
                self.applied['source-kept-multi-line'] += 1
                bare = isinstance(node, (ast.Constant, ast.JoinedStr)) and single_string_token(seg) and rng.random() < 0.7
                self.write(seg if bare else '(' + seg + ')')
                return
        if (self._nowrap == 0 and isinstance(node, WRAPPABLE)
                and isinstance(getattr(node, 'ctx', None) or ast.Load(), ast.Load)
                and rng.random() < self.style.get('p_paren', 0)):
            self.applied['redundant-parens'] += 1
            self.write('(')
            ast.NodeVisitor.visit(self, node)
            self.write(')')
            return
        return ast.NodeVisitor.visit(self, node)


def single_string_token(seg):
    """True iff the text is exactly one string token (one STRING, or one f-string from its start to its end)"""
    try:
        toks = [t for t in tokens_of(seg + '\n') if t.type not in _TRIVIA and t.type != tokenize.NEWLINE]
    except (tokenize.TokenError, SyntaxError, IndentationError):
        return False
    if not toks:
        return False
    if len(toks) == 1:
        return toks[0].type == tokenize.STRING
    if toks[0].type != _FSTART or toks[-1].type != _FEND:
        return False
    depth = 0
    for i, t in enumerate(toks):
        if t.type == _FSTART:
            depth += 1
        elif t.type == _FEND:
            depth -= 1
            if depth == 0 and i != len(toks) - 1:
                return False
    return depth == 0


def unparse_layout(tree, rng, style, source=None):
    """-> (text, Counter of applied features); with `source` (the text the tree was parsed from) simple statements
    and multi-line expressions may be copied from it verbatim"""
    u = LayoutUnparser(rng, style, source)
    text = u.visit(tree)
    return text + '\n', u.applied


# ---------------------------------------------------------------------------------------------
# token-level pass

COMMENTS = ['#', '# note', '#: keep', '# TODO check this', '# type: ignore', '# (see above)', '#!x', '# a = b; c',
            '# def f(): pass', '# ]})']
_SAFE_STRIP = {',', '(', ')', '[', ']', '{', '}', '=', ':', ';'}
_TRIVIA = (tokenize.NL, tokenize.COMMENT, tokenize.INDENT, tokenize.DEDENT, tokenize.ENDMARKER)
_FSTART = getattr(tokenize, 'FSTRING_START', -1)
_FEND = getattr(tokenize, 'FSTRING_END', -2)


def tokens_of(text):
    with warnings.catch_warnings():
        warnings.simplefilter('ignore')
        return list(tokenize.generate_tokens(io.StringIO(text).readline))


def token_pass(text, rng, style):
    """-> (new text, Counter of applied features).  Raises tokenize.TokenError / SyntaxError on texts the
    tokenizer rejects."""
    applied = collections.Counter()
    if not text.endswith('\n'):
        text += '\n'
    offs = [0]
    for ln in text.split('\n'):
        offs.append(offs[-1] + len(ln) + 1)

    def off(pos):
        return offs[pos[0] - 1] + pos[1]

    toks = tokens_of(text)
    p_nl, p_bs = style.get('p_nl', 0), style.get('p_bs', 0)
    p_space, p_strip = style.get('p_space', 0), style.get('p_strip', 0)
    p_tail, p_lines = style.get('p_tail_comment', 0), style.get('p_lines', 0)
    p_namec = style.get('p_name_comment', 0)
    names = sorted({t.string for t in toks if t.type == tokenize.NAME}) if p_namec else []

    def comment():
        if names and rng.random() < p_namec:
            k = rng.randint(1, 3)
            return '# ' + rng.choice(['', 'see ', 'was: ']) + rng.choice([', ', ' ', ' = ']).join(
                rng.choice(names) for _ in range(k))
        return rng.choice(COMMENTS)

    def extra_lines():
        out = []
        for _ in range(rng.randint(1, 3)):
            if rng.random() < 0.5:
                applied['blank-lines'] += 1
                out.append(rng.choice(['', '', '   ']) + '\n')
            else:
                applied['comment'] += 1
                out.append(' ' * rng.choice([0, 0, 2, 4, 7, 12]) + comment() + '\n')
        return ''.join(out)

    out = []
    cur = 0
    depth = 0
    fdepth = 0
    prev = None          # previous significant token of the current logical line
    last_type = None
    for tok in toks:
        s, e = off(tok.start), off(tok.end)
        if s < cur:      # zero-width tokens at the end of the text
            s = e = cur
        gap = text[cur:s]
        tt = tok.type
        if tt in _TRIVIA:
            out.append(gap)
            out.append(text[s:e])
            cur = e
            if tt == tokenize.NL and fdepth == 0 and text[s:e].endswith('\n') and rng.random() < p_lines:
                out.append(extra_lines())
            last_type = tt
            continue
        if tt == tokenize.NEWLINE:
            out.append(gap)
            if last_type != tokenize.COMMENT and fdepth == 0 and rng.random() < p_tail:
                applied['comment'] += 1
                out.append(rng.choice([' ', '  ', '']) + comment())
            out.append(text[s:e])
            cur = e
            if text[s:e].endswith('\n') and rng.random() < p_lines:
                out.append(extra_lines())
            prev = None
            last_type = tt
            continue
        if fdepth == 0 and prev is not None and gap.strip(' \t') == '':
            r = rng.random()
            if depth > 0 and r < p_nl:
                applied['bracket-newline'] += 1
                g = ''
                if rng.random() < 0.2:
                    applied['comment'] += 1
                    g = rng.choice([' ', '  ']) + comment()
                g += '\n'
                if rng.random() < 0.1:
                    applied['blank-lines'] += 1
                    g += '\n'
                gap = g + ' ' * rng.choice([0, 0, 1, 2, 4, 4, 8, 11, 16])
            elif depth == 0 and r < p_bs:
                applied['backslash-continuation'] += 1
                gap = rng.choice([' ', '', '  ']) + '\\\n' + ' ' * rng.choice([0, 0, 1, 2, 4, 4, 8, 11])
            else:
                r = rng.random()
                if r < p_space:
                    applied['extra-spaces'] += 1
                    gap = gap + ' ' * rng.randint(1, 3)
                elif gap and r < p_space + p_strip and (
                        (prev.type == tokenize.OP and prev.string in _SAFE_STRIP)
                        or (tt == tokenize.OP and tok.string in _SAFE_STRIP)):
                    applied['removed-spaces'] += 1
                    gap = ''
        out.append(gap)
        out.append(text[s:e])
        cur = e
        if tt == tokenize.OP:
            if tok.string in '([{':
                depth += 1
            elif tok.string in ')]}':
                depth -= 1
        elif tt == _FSTART:
            fdepth += 1
        elif tt == _FEND:
            fdepth -= 1
        prev = tok
        last_type = tt
    out.append(text[cur:])
    return ''.join(out), applied


def relayout(text, tree, rng, only=None, base=None):
    """One random re-layout of `text` (whose tree is `tree`).
    base: 'unparse' (LayoutUnparser then token pass) or 'original' (token pass over the original text,
    which keeps the author's own layout, comments and line breaks); default: chosen at random.
    -> (new text, Counter of applied features, base)"""
    style = random_style(rng, only)
    if base is None:
        base = 'unparse' if rng.random() < 0.7 else 'original'
    applied = collections.Counter()
    if base == 'unparse':
        new, a = unparse_layout(tree, rng, style, text)
        applied.update(a)
        if rng.random() < 0.25 and only is None:
            return new, applied, base
    else:
        new = text
    new, a = token_pass(new, rng, style)
    applied.update(a)
    return new, applied, base
