"""Helpers for C15: transport normalisation, JSON-able request specs, a watchdogged client
session around the real supp.remote.Environment, and the in-process mirror.

Nothing here models supp's analysis: the mirror calls the real in-process API
(supp.project.Project, supp.assistant, supp.linter) and, for dispatch faults, the real
supp.server.Server class without a connection.
"""
import os
import re
import struct
import threading
import time

WATCHDOG_S = 60
INT_MIN, INT_MAX = -(1 << 63), (1 << 64) - 1
DEEP = 400          # nesting levels; generated values are either < 100 or >= 3000 deep
API = ('configure', 'assist', 'location', 'lint', 'eval')
NEVER_SEND = ('close', 'run', 'process', 'conn', 'project')


class Unserialisable(Exception):
    pass


# ---------------------------------------------------------------------------------------
# transport normalisation

def depth_of(x):
    """container nesting depth, computed without recursion"""
    best = 0
    stack = [(x, 0)]
    while stack:
        o, d = stack.pop()
        if isinstance(o, (list, tuple)):
            best = max(best, d + 1)
            for e in o:
                if isinstance(e, (list, tuple, dict)):
                    stack.append((e, d + 1))
        elif isinstance(o, dict):
            best = max(best, d + 1)
            for k, v in o.items():
                if isinstance(k, (list, tuple, dict)):
                    stack.append((k, d + 1))
                if isinstance(v, (list, tuple, dict)):
                    stack.append((v, d + 1))
    return best


def canon(x, Ext=None):
    """Type-strict canonical form of a value *as the transport delivers it*: tuples and lists
    are the same thing, everything else keeps its type.  Raises Unserialisable for values
    outside the MessagePack data model (the server then answers 'Serialize error')."""
    if depth_of(x) > DEEP:
        raise Unserialisable('nesting deeper than %d' % DEEP)
    return _canon(x, Ext)


def _canon(x, Ext):
    if x is None:
        return ('nil',)
    if isinstance(x, bool):
        return ('bool', bool(x))
    if isinstance(x, int):
        if not INT_MIN <= x <= INT_MAX:
            raise Unserialisable('int out of range')
        return ('int', int(x))
    if isinstance(x, float):
        return ('float', struct.pack('>d', x))
    if isinstance(x, str):
        try:
            x.encode('utf-8')
        except UnicodeEncodeError:
            raise Unserialisable('str not encodable')
        return ('str', str(x))
    if isinstance(x, bytes):
        return ('bin', bytes(x))
    if isinstance(x, (list, tuple)):
        return ('arr', tuple(_canon(e, Ext) for e in x))
    if isinstance(x, dict):
        items = [(_canon(k, Ext), _canon(v, Ext)) for k, v in x.items()]
        items.sort(key=repr)
        return ('map', tuple(items))
    if Ext is not None and isinstance(x, Ext):
        return ('ext', x.type, bytes(x.data))
    raise Unserialisable('type %s' % type(x).__name__)


def as_received(x):
    """request arguments as the server sees them: tuples arrive as lists, list keys as tuples"""
    if isinstance(x, (list, tuple)):
        return [as_received(e) for e in x]
    if isinstance(x, dict):
        return {_key(k): as_received(v) for k, v in x.items()}
    return x


def _key(k):
    if isinstance(k, (list, tuple)):
        return tuple(_key(e) for e in k)
    return k


HEX_ADDR = re.compile(r'0x[0-9a-fA-F]{6,}')


def mask(msg):
    return HEX_ADDR.sub('0x?', msg) if isinstance(msg, str) else msg


def describe(x, limit=160):
    r = repr(x)
    return r if len(r) <= limit else r[:limit] + '...<%d chars>' % len(r)


# ---------------------------------------------------------------------------------------
# JSON-able value specs (so that a whole history fits in a replay file)

def rep(unit, n):
    return {'$': 'rep', 'unit': unit, 'n': n}


def cat(*parts):
    return {'$': 'cat', 'parts': list(parts)}


def path(rel):
    return {'$': 'path', 'rel': rel}


def tup(*v):
    return {'$': 'tuple', 'v': list(v)}


def byt(v):
    return {'$': 'bytes', 'v': v}


def hexb(h):
    return {'$': 'hex', 'v': h}


def resolve(s, root):
    if isinstance(s, list):
        return [resolve(e, root) for e in s]
    if isinstance(s, dict):
        t = s.get('$')
        if t is None:
            return {k: resolve(v, root) for k, v in s.items()}
        if t == 'rep':
            u = s['unit']
            n = s['n']
            return (u * (n // len(u) + 1))[:n] if n else ''
        if t == 'cat':
            return ''.join(resolve(p, root) for p in s['parts'])
        if t == 'path':
            return os.path.join(root, s['rel']) if s['rel'] else root
        if t == 'tuple':
            return tuple(resolve(e, root) for e in s['v'])
        if t == 'bytes':
            return resolve(s['v'], root).encode('utf-8')
        if t == 'hex':
            return bytes.fromhex(s['v'])
        if t == 'repofile':
            with open(os.path.join(os.environ.get('VF_REPO', '/repo'), s['rel']), encoding='utf-8') as f:
                return f.read()
        if t == 'repopath':
            return os.path.join(os.path.abspath(os.environ.get('VF_REPO', '/repo')), s['rel'])
        if t == 'float':
            return float(s['v'])
        if t == 'dict':
            return {_key(resolve(k, root)): resolve(v, root) for k, v in s['items']}
        raise ValueError('bad spec %r' % (s,))
    return s


# ---------------------------------------------------------------------------------------
# the real client, watched

class Hung(Exception):
    pass


def blocked_state(proc):
    """What the kernel says a silent server is doing: {'alive', 'state', 'wchan', 'syscall', 'fd1', 'fd2',
    'blocked_on_pipe_write'}.  blocked_on_pipe_write = the process is alive, sleeping inside a
    write to a pipe (its own stdout/stderr), i.e. it is not slow, it waits for a reader."""
    info = {'alive': False, 'blocked_on_pipe_write': False}
    if proc is None or proc.poll() is not None:
        return info
    info['alive'] = True
    d = '/proc/%d/' % proc.pid
    for key in ('wchan', 'syscall'):
        try:
            with open(d + key) as f:
                info[key] = f.read().strip()[:200]
        except OSError:
            info[key] = ''
    try:
        with open(d + 'stat') as f:
            info['state'] = f.read().rsplit(')', 1)[1].split()[0]
    except (OSError, IndexError):
        info['state'] = '?'
    for fd in (1, 2):
        try:
            info['fd%d' % fd] = os.readlink(d + 'fd/%d' % fd)
        except OSError:
            info['fd%d' % fd] = ''
    in_pipe_write = 'pipe_write' in info['wchan']
    sc = info['syscall'].split()
    if not in_pipe_write and len(sc) >= 2 and sc[0] == '1' and os.uname().machine == 'x86_64':
        try:
            in_pipe_write = info.get('fd%d' % int(sc[1], 16), '').startswith('pipe:')
        except ValueError:
            pass
    info['blocked_on_pipe_write'] = bool(in_pipe_write and info['state'] in ('S', 'D')
                                         and (info['fd1'].startswith('pipe:') or info['fd2'].startswith('pipe:')))
    return info


class ConnProxy(object):
    """Stands between supp.remote and the connection object Client() gave it.  Forwards
    everything and counts poll() calls.  With jump=True, poll(timeout) behaves as if the clock
    jumped: it waits at most 50 ms of real time and then says truthfully whether data is there,
    i.e. "the reply took longer than any timeout the client may have".  A client that never
    polls, or that polls again until data arrives, is not affected."""
    JUMP_S = 0.05

    def __init__(self, conn, jump, stats):
        self.__dict__.update(_c=conn, _jump=jump, _stats=stats)

    def poll(self, timeout=0.0):
        self._stats['poll_calls'] += 1
        if self._jump and (timeout is None or timeout > self.JUMP_S):
            self._stats['poll_timeouts_cut_short'] += 1
            return self._c.poll(self.JUMP_S)
        return self._c.poll(timeout)

    def __getattr__(self, name):
        return getattr(self._c, name)

    def __setattr__(self, name, value):
        setattr(self._c, name, value)


class Session(object):
    """One real supp.remote.Environment + its server child.  Every call is bracketed by a
    call/return log entry and by counters on the client's dumps/loads (the wire boundary)."""

    def __init__(self, logfile=None, env=None, clock_jump=False):
        from supp import remote
        self.clock_jump = clock_jump
        self.conn_stats = {'poll_calls': 0, 'poll_timeouts_cut_short': 0}
        self.remote = remote
        self.env = remote.Environment(env=env, logfile=logfile)
        self.log = []
        self.sent = []
        self.received = []
        self.hung = False
        self.hang_info = None
        self.pid = None
        self._orig = (remote.dumps, remote.loads)
        sent, received, od, ol = self.sent, self.received, remote.dumps, remote.loads

        def dumps(obj, *a, **k):
            data = od(obj, *a, **k)
            sent.append(len(data))
            return data

        def loads(data, *a, **k):
            received.append(len(data))
            return ol(data, *a, **k)
        remote.dumps, remote.loads = dumps, loads

    def start(self):
        """launch + connect through the client's own run(), then put the proxy in place"""
        self.env.run()
        self.env.conn = ConnProxy(self.env.conn, self.clock_jump, self.conn_stats)

    def _fire(self):
        self.hung = True
        self.hang_info = blocked_state(getattr(self.env, 'proc', None))
        try:
            self.env.proc.kill()
        except Exception:
            pass

    def call(self, name, args, kwargs, public=True, watchdog=WATCHDOG_S):
        """-> ('ok', value) | ('exc', message) | ('broken', exception type name, message)"""
        idx = len(self.log)
        self.log.append(('call', idx, name))
        timer = threading.Timer(watchdog, self._fire)
        timer.daemon = True
        timer.start()
        ns, nr = len(self.sent), len(self.received)
        try:
            try:
                if public and name in API and not kwargs:
                    value = getattr(self.env, name)(*args)
                else:
                    value = self.env._call(name, *args, **kwargs)
                out = ('ok', value)
            except Exception as e:
                if type(e) is Exception and len(self.received) == nr + 1:
                    out = ('exc', str(e))
                else:
                    out = ('broken', type(e).__name__, str(e))
        finally:
            timer.cancel()
        self.wire = (len(self.sent) - ns, len(self.received) - nr)
        self.last_bytes = (self.sent[-1] if len(self.sent) > ns else None,
                           self.received[-1] if len(self.received) > nr else None)
        self.log.append(('return', idx, out[0]))
        if self.hung:
            raise Hung(name)
        return out

    def alive(self):
        p = getattr(self.env, 'proc', None)
        return p is not None and p.poll() is None

    def exit_code(self, wait=2.0):
        p = getattr(self.env, 'proc', None)
        if p is None:
            return None
        t = time.time()
        while p.poll() is None and time.time() - t < wait:
            time.sleep(0.02)
        return p.poll()

    def kill(self):
        self.remote.dumps, self.remote.loads = self._orig
        p = getattr(self.env, 'proc', None)
        if p is not None:
            try:
                p.kill()
            except Exception:
                pass
            try:
                p.wait(10)
            except Exception:
                pass
        c = getattr(self.env, 'conn', None)
        if c is not None:
            try:
                c.close()
            except Exception:
                pass


# ---------------------------------------------------------------------------------------
# the in-process mirror

def _nstr(data):
    if type(data) is bytes:
        return data.decode()
    return data


LOCAL_PREFIX = 'vfp_'
_ENV = {'calls': 0, 'foreign': 0}


def _watch_list_packages():
    """Project.list_packages enumerates sys.modules and sys.path of the *process*; for a root
    outside the temp project its answer is a fact about the process, not about the request.
    The wrapper only records that such a listing took part in the answer."""
    from supp import project
    cur = project.Project.list_packages
    if getattr(cur, '_vf_watch', False):
        return

    def list_packages(self, root):
        _ENV['calls'] += 1
        if not (isinstance(root, str) and root.startswith(LOCAL_PREFIX)):
            _ENV['foreign'] += 1
        return cur(self, root)
    list_packages._vf_watch = True
    project.Project.list_packages = list_packages


_LIVE_MULTI = None


def _watch_multiname():
    """supp.name.MultiName keeps its alternatives in `list(set(names))`: for two or more
    distinct Name objects that order is their address order, i.e. a property of the
    process, and everything computed from such an object (first alternative wins, order of
    reported locations) is not a function of the request.  The wrapper records when such
    an object is created and which of them stay alive (cached in the project)."""
    global _LIVE_MULTI
    import weakref
    from supp import name
    cur = name.MultiName.__init__
    if getattr(cur, '_vf_watch', False):
        return
    _LIVE_MULTI = weakref.WeakSet()
    _ENV['multi'] = 0

    def __init__(self, names):
        cur(self, names)
        if len(self.alt_names) >= 2:
            _ENV['multi'] += 1
            _LIVE_MULTI.add(self)
    __init__._vf_watch = True
    name.MultiName.__init__ = __init__


def multiname_keeps_order():
    """True if MultiName no longer orders its alternatives by address (the C17 repair)"""
    from supp import name

    class N(object):
        def __init__(self, i):
            self.name = 'n%d' % i
            self.location = (i, 0)
    base = [N(i) for i in range(9)]
    for perm in (base, base[::-1], base[4:] + base[:4], base[1::2] + base[0::2]):
        try:
            if list(name.MultiName(list(perm)).alt_names) != list(perm):
                return False
        except Exception:
            return False
    return True


class Mirror(object):
    """One Project per configure, every request inside check_changes(), same order as the
    server sees them.  Dispatch faults (unknown method, wrong arity, wrong types, requests
    before configure) are put to an instance of the real Server class that has no
    connection, sharing the mirror's project, so that the expected message is the str() of
    the exception CPython raises for that very call."""

    def __init__(self):
        from supp import assistant, linter, project, server
        self.assistant, self.linter, self.Project = assistant, linter, project.Project
        self.srv = server.Server(None)
        self.project = None
        self.env_dependent = False
        self.address_ordered = False
        _watch_list_packages()
        self.strict_order = multiname_keeps_order()
        _watch_multiname()

    def run(self, name, args, kwargs, how):
        """-> ('ok', raw value) | ('exc', message)"""
        args = as_received(list(args))
        kwargs = as_received(dict(kwargs))
        before = _ENV['foreign']
        multi = _ENV['multi']
        try:
            return self._run(name, args, kwargs, how)
        finally:
            self.env_dependent = _ENV['foreign'] != before
            created = _ENV['multi'] != multi
            if created or len(_LIVE_MULTI):
                # per-request objects are cyclic garbage now; what survives a collection is cached
                import gc
                gc.collect()
            self.address_ordered = not self.strict_order and (created or len(_LIVE_MULTI) > 0)

    def _run(self, name, args, kwargs, how):
        try:
            if how == 'server-class' or self.project is None and name != 'configure' and name != 'eval':
                return ('ok', self._dispatch(name, args, kwargs))
            return ('ok', getattr(self, 'do_' + name)(*args, **kwargs))
        except Exception as e:
            return ('exc', str(e))

    def _dispatch(self, name, args, kwargs):
        if name in NEVER_SEND:
            raise AssertionError('not sent through the server class: %r' % (name,))
        if name == 'configure':
            # wrong-arity configure (the message names Server.configure): a configure that raises
            # changes nothing - the session project stays that of the last successful configure
            try:
                r = self.srv.configure(*args, **kwargs)
            except Exception:
                if self.project is None:
                    self.srv.__dict__.pop('project', None)
                else:
                    self.srv.project = self.project
                raise
            self.project = getattr(self.srv, 'project', None)
            return r
        return getattr(self.srv, name)(*args, **kwargs)

    def do_configure(self, config):
        # what a configure request means: a new Project(sources, dyn_modules); if that raises, the
        # session keeps the project of the last successful configure
        project = self.Project(config['sources'], dyn_modules=config.get('dyn_modules'))
        self.project = project
        self.srv.project = project
        return None

    def do_assist(self, source, position, filename):
        with self.project.check_changes():
            return self.assistant.assist(self.project, _nstr(source), tuple(position), filename)

    def do_location(self, source, position, filename):
        with self.project.check_changes():
            return self.assistant.location(self.project, _nstr(source), tuple(position), filename)

    def do_lint(self, source, filename, syntax_only=False):
        with self.project.check_changes():
            return [r[:4] for r in self.linter.lint(self.project, _nstr(source), filename)]

    def do_eval(self, source):
        body = '\n'.join('    ' + r for r in _nstr(source).splitlines())
        ctx = {}
        exec('def boo():\n%s\nresult = boo()' % body, ctx)
        return ctx['result']
