"""Controlled cooperative scheduler for real threads (used by C16).

Real OS threads run the real code, but only one of them runs at any time: every managed
thread owns a binary semaphore and waits on it; the thread that reaches a *switch point*
takes the scheduling decision itself (asks the ``chooser``), and either simply continues or
wakes the chosen thread and goes to sleep on its own semaphore.  Switch points are

* every ``LINE`` event (``sys.monitoring``) of a code object of the traced file
  (``supp/remote.py``) - all of them in ``full`` mode, only the lines of ``visible`` in
  reduced mode; in instruction mode instead every ``INSTRUCTION`` event (all of them, or
  only the instructions that can touch shared state), which reaches the windows between two
  bytecodes of one source line,
* every blocking operation of the scheduler-aware ``SchedLock`` / ``SchedThread.join`` /
  a fake connection's ``recv`` - the thread parks with a *pending* operation and is enabled
  only when that operation can complete, so the enabled set is always known and
  "no thread enabled, some not done" is a deadlock,
* explicit ``park`` calls of the harness (operation boundaries of client scripts).

``Explorer`` drives a depth-first enumeration of all choices like a stateless model checker
(re-execute from the start, replay a prefix, then default choices), optionally with a
preemption bound (and split into independent sub-trees) or with sleep sets (partial-order
reduction from the access sets recorded for every step).

All state is per ``Scheduler`` instance; the fakes find their scheduler through a
thread-local that is set per job, and a pooled OS thread is reused only after its job has
returned, so threads that linger from an abandoned run can never touch the next run.
"""
import ast
import hashlib
import sys
import threading
import _thread

_tls = threading.local()

WATCHDOG = 120.0         # seconds the driver waits for one run to finish
                         # (expiry = harness problem = inconclusive, never a verdict)


class SchedAbort(BaseException):
    """Raised inside managed threads to unwind them when their run was abandoned."""


class Nondeterminism(Exception):
    """A replayed prefix met a different enabled set than when it was logged."""


def current_sched():
    ts = getattr(_tls, 'ts', None)
    if ts is not None:
        return ts.sched
    return getattr(_tls, 'driver_sched', None)


def current_ts():
    return getattr(_tls, 'ts', None)


def _sem():
    """binary semaphore: a raw lock that starts out taken; release() = signal, acquire() = wait"""
    l = _thread.allocate_lock()
    l.acquire()
    return l


def _signal(l):
    try:
        l.release()
    except RuntimeError:
        pass


# OS threads are expensive to create here (~1 ms), so managed threads borrow a pooled OS
# thread for the duration of one job; a pooled thread goes back to the pool only after its
# job function has returned, so a thread still unwinding from an abandoned run is never
# handed to the next run.
_POOL = []


class _PoolThread(object):
    def __init__(self):
        self.sem = _sem()
        self.job = None
        _thread.start_new_thread(self.loop, ())

    def loop(self):
        while True:
            self.sem.acquire()
            job, self.job = self.job, None
            try:
                job()
            except BaseException:
                pass
            _tls.ts = None
            _POOL.append(self)


def _run_pooled(job):
    try:
        pt = _POOL.pop()
    except IndexError:
        pt = _PoolThread()
    pt.job = job
    _signal(pt.sem)


class TState(object):
    __slots__ = ('sched', 'tid', 'name', 'kind', 'sem', 'done', 'pending', 'at', 'exc',
                 'started', 'data', 'func', 'midline', 'linepos')

    def __init__(self, sched, tid, name, kind):
        self.sched = sched
        self.tid = tid
        self.name = name
        self.kind = kind
        self.sem = _sem()
        self.done = False
        self.pending = None       # None | ('acquire', lock) | ('join', TState) | ('recv', obj)
        self.at = 'start'         # label of the point where the thread is parked
        self.func = ''
        self.midline = False      # parked at an instruction that is not the first switch point of its line
        self.linepos = {}         # id(frame) -> switch points passed since the frame's last line event
        self.exc = None
        self.started = False
        self.data = {}            # free for the harness (current operation etc.)


class Scheduler(object):
    """The scheduling decision is taken by whichever thread holds the baton (the thread that
    just reached a switch point, or the driver at the very start); only a real context
    switch costs an OS-level hand-over."""

    def __init__(self, chooser, traced_file, visible=None, line_access=None, max_steps=4000,
                 instr=False, instr_info=None):
        """visible: set of line numbers that are switch points, or None = every line.
        line_access: {lineno: (reads, writes)} static access sets (for sleep sets).
        instr: switch points are bytecode instructions instead of lines;
        instr_info(code) -> (set of instruction offsets that are switch points or None = every
        instruction of the traced file, {offset: (reads, writes)} static access sets)."""
        self.chooser = chooser
        self.instr = instr
        self.instr_info = instr_info
        self._ivis = {}
        self.midline_preemptions = 0
        self.midline_positions = set()
        self.traced_file = traced_file
        self.visible = visible
        self.line_access = line_access or {}
        self.max_steps = max_steps
        self.threads = []
        self.back = _sem()
        self.aborted = False
        self.steps = 0
        self.preemptions = 0
        self.schedule = []        # tid per step
        self.trail = []           # (tid, at) per step: the visible-step sequence
        self.step_access = []     # (reads, writes) per step
        self._r = set()
        self._w = set()
        self.clock = 0.0
        self.sleep_extra = 0.0
        self.status = None
        self.error = None
        self.world = None         # harness object (fakes' state)
        self.on_step = None       # callback(ts, step_index) when a step is granted

    # -- threads --------------------------------------------------------------------------
    def spawn(self, fn, name, kind):
        ts = TState(self, len(self.threads), name, kind)
        self.threads.append(ts)
        ts.started = True
        _run_pooled(lambda: self._boot(ts, fn))
        return ts

    def _boot(self, ts, fn):
        _tls.ts = ts
        ts.sem.acquire()
        if self.aborted:
            ts.done = True
            return
        try:
            fn()              # switch points come from the sys.monitoring callbacks
        except SchedAbort:
            ts.done = True
            return
        except BaseException as e:      # recorded, judged by the harness
            ts.exc = e
        ts.done = True
        self._w.add(('thr', ts.tid))
        if self.aborted:
            return
        nxt = self._decide(ts)
        if nxt is None:
            _signal(self.back)
        else:
            _signal(nxt.sem)

    def park(self, ts, pending):
        """Switch point: decide who runs next; returns when this thread is granted a step."""
        if self.aborted:
            raise SchedAbort()
        ts.pending = pending
        nxt = self._decide(ts)
        if nxt is ts:
            ts.pending = None
            return
        if nxt is None:
            _signal(self.back)
        else:
            _signal(nxt.sem)
        ts.sem.acquire()
        if self.aborted:
            raise SchedAbort()
        ts.pending = None

    def touch(self, var, write=True):
        (self._w if write else self._r).add(var)

    # -- decisions ------------------------------------------------------------------------
    def _enabled(self, ts):
        p = ts.pending
        if p is None:
            return True
        k = p[0]
        if k == 'acquire':
            return p[1].owner is None
        if k == 'join':
            return p[1].done
        if k == 'recv':
            return p[1].readable()
        raise AssertionError(p)

    def _decide(self, current):
        """Close the step of `current` (None at the start), pick the next thread.  Returns the
        TState to run, or None when the run is over (self.status says why)."""
        if current is not None:
            self.step_access.append((frozenset(self._r), frozenset(self._w)))
        alive = [t for t in self.threads if not t.done]
        if not alive:
            self.status = 'done'
            return None
        enabled = [t for t in alive if self._enabled(t)]
        if not enabled:
            self.status = 'deadlock'
            return None
        if self.steps >= self.max_steps:
            self.status = 'step-limit'
            return None
        cur_idx = enabled.index(current) if current in enabled else -1
        try:
            idx = self.chooser.choose(self, [t.tid for t in enabled], cur_idx)
        except Exception as e:
            self.error = e
            self.status = 'error'
            return None
        if idx is None:
            self.status = 'pruned'
            return None
        t = enabled[idx]
        if cur_idx >= 0 and idx != cur_idx:
            self.preemptions += 1
            if current.midline and current.pending is None:
                self.midline_preemptions += 1
                self.midline_positions.add('%s:%s' % (current.func, current.at))
        self.schedule.append(t.tid)
        p = t.pending
        self.trail.append((t.tid, t.at if p is None else '%s@%s' % (p[0], t.at)))
        self._r = set()
        self._w = set()
        if self.on_step is not None:
            self.on_step(t, self.steps)
        self.steps += 1
        return t

    def run(self):
        """Run until all threads are done / deadlock / step limit / abort.  Returns status."""
        try:
            first = self._decide(None)
            if first is not None:
                _signal(first.sem)
                if not self.back.acquire(timeout=WATCHDOG):
                    self.status = 'watchdog'
        finally:
            if self.status != 'done':
                self.abort()
        if self.status == 'error':
            raise self.error
        return self.status

    def abort(self):
        self.aborted = True
        for t in self.threads:
            _signal(t.sem)

    def blocked_summary(self):
        out = []
        for t in self.threads:
            if not t.done:
                p = t.pending
                out.append({'tid': t.tid, 'kind': t.kind, 'at': t.at, 'func': t.func,
                            'pending': p[0] if p else None})
        return out

    def trail_hash(self):
        return hashlib.blake2b(repr(self.trail).encode(), digest_size=8).hexdigest()


# Switch points come from sys.monitoring (PEP 669) LINE / INSTRUCTION / JUMP events, switched
# on ONCE per process for the code objects of the traced file and never changed afterwards.
# (Changing instrumentation while lingering threads still execute the code crashed CPython
# 3.12.1 - frame.f_trace_opcodes under sys.settrace does exactly that - and sys.settrace(None)
# silently drops other tools' INSTRUCTION instrumentation, so sys.settrace is not used.)
# The callbacks are process-global; they act only in threads that currently run a job of a
# Scheduler.
MON_TOOL = 3
_MON = {'on': False, 'lines': {}}


def enable_monitoring(codes):
    mon = sys.monitoring
    if not _MON['on']:
        mon.use_tool_id(MON_TOOL, 'vf-sched')
        mon.register_callback(MON_TOOL, mon.events.INSTRUCTION, _on_instruction)
        mon.register_callback(MON_TOOL, mon.events.LINE, _on_line)
        mon.register_callback(MON_TOOL, mon.events.JUMP, _on_jump)
        _MON['on'] = True
    import dis
    for code in codes:
        if code in _MON['lines']:
            continue
        m = {}
        line = code.co_firstlineno
        for ins in dis.get_instructions(code):
            pos = getattr(ins, 'positions', None)
            if pos is not None and pos.lineno is not None:
                line = pos.lineno
            m[ins.offset] = line
        _MON['lines'][code] = m
        mon.set_local_events(MON_TOOL, code, mon.events.INSTRUCTION | mon.events.LINE | mon.events.JUMP)


def code_objects_of(module_or_class, filename):
    """all code objects defined in `filename` reachable from the functions of a module"""
    import types
    seen = []

    def walk(code):
        if code in seen or code.co_filename != filename:
            return
        seen.append(code)
        for c in code.co_consts:
            if isinstance(c, types.CodeType):
                walk(c)

    def visit(obj, depth=0):
        for v in list(vars(obj).values()):
            f = getattr(v, '__func__', v)
            if isinstance(f, types.FunctionType):
                walk(f.__code__)
            elif isinstance(v, type) and depth < 3 and getattr(v, '__module__', None) == getattr(module_or_class, '__name__', None):
                visit(v, depth + 1)
    visit(module_or_class)
    return seen


def _on_instruction(code, offset):
    ts = getattr(_tls, 'ts', None)
    if ts is None:
        return
    s = ts.sched
    if not s.instr:
        return
    info = s._ivis.get(code)
    if info is None:
        info = s._ivis[code] = s.instr_info(code)
    vis, iacc = info
    if vis is None or offset in vis:
        fid = id(sys._getframe(1))
        n = ts.linepos.get(fid, 0)
        ts.linepos[fid] = n + 1
        ts.at = '%d+%d' % (_MON['lines'][code].get(offset, 0), offset)
        ts.func = code.co_name
        ts.midline = n > 0
        s.park(ts, None)
    acc = iacc.get(offset)
    if acc is not None:
        s._r.update(acc[0])
        s._w.update(acc[1])


def _on_line(code, line):
    ts = getattr(_tls, 'ts', None)
    if ts is None:
        return
    s = ts.sched
    if s.instr:
        # accesses are attributed per instruction in this mode
        ts.linepos[id(sys._getframe(1))] = 0
        return
    vis = s.visible
    if vis is None or line in vis:
        ts.at = line
        ts.func = code.co_name
        s.park(ts, None)
    acc = s.line_access.get(line)
    if acc is not None:
        s._r.update(acc[0])
        s._w.update(acc[1])


def _on_jump(code, src, dst):
    # like sys.settrace: a backward jump that stays on the same line starts the line again
    if dst <= src:
        m = _MON['lines'].get(code)
        if m is not None and m.get(src) == m.get(dst) and getattr(_tls, 'ts', None) is not None:
            _on_line(code, m.get(dst))


# ---------------------------------------------------------------------------------------
# scheduler-aware replacements for threading.Lock / threading.Thread / the time module

class SchedLock(object):
    def __init__(self):
        self.sched = current_sched()
        self.owner = None
        self.var = ('lock', id(self))

    def acquire(self, blocking=True, timeout=-1):
        ts = current_ts()
        s = self.sched
        if ts is None or s is None or ts.sched is not s:
            # not under this scheduler (driver thread): plain non-blocking semantics
            if self.owner is None:
                self.owner = 'driver'
                return True
            return False
        s.touch(self.var)
        if self.owner is not None:
            if not blocking:
                return False
            s.park(ts, ('acquire', self))
            s.touch(self.var)
            assert self.owner is None
        self.owner = ts
        return True

    def release(self):
        if self.owner is None:
            raise RuntimeError('release unlocked lock')
        s = self.sched
        if s is not None:
            s.touch(self.var)
        self.owner = None

    def locked(self):
        if self.sched is not None:
            self.sched.touch(self.var, write=False)
        return self.owner is not None

    def __enter__(self):
        self.acquire()
        return self

    def __exit__(self, *a):
        self.release()
        return False


class SchedThread(object):
    def __init__(self, group=None, target=None, name=None, args=(), kwargs=None, daemon=None):
        self.sched = current_sched()
        self._target = target
        self._args = tuple(args)
        self._kwargs = dict(kwargs or {})
        self.name = name or 'starter'
        self.daemon = daemon
        self.ts = None

    def run(self):
        if self._target is not None:
            self._target(*self._args, **self._kwargs)

    def start(self):
        if self.ts is not None:
            raise RuntimeError('threads can only be started once')
        s = self.sched
        self.ts = s.spawn(self.run, self.name, 'starter')
        self.ts.data['creator'] = getattr(current_ts(), 'tid', None)
        self.ts.data['daemon'] = bool(self.daemon)     # observation for the harness
        s.touch(('thr', self.ts.tid))

    def join(self, timeout=None):
        if self.ts is None:
            raise RuntimeError('cannot join thread before it is started')
        ts = current_ts()
        s = self.sched
        if ts is self.ts:
            raise RuntimeError('cannot join current thread')
        s.touch(('thr', self.ts.tid), write=False)
        if not self.ts.done:
            if timeout is not None:
                # a timed join gives up: model "timeout elapsed" as an immediate return
                s.clock += timeout
                return
            s.park(ts, ('join', self.ts))
            s.touch(('thr', self.ts.tid), write=False)

    def is_alive(self):
        if self.ts is not None:
            self.sched.touch(('thr', self.ts.tid), write=False)
        return self.ts is not None and not self.ts.done

    isAlive = is_alive


class VirtualTime(object):
    """Stands in for the ``time`` module inside supp.remote: sleep() advances a per-run
    virtual clock (plus the run's configured scheduling latency), time() reads it."""

    def __init__(self, real):
        self._real = real

    def time(self):
        s = current_sched()
        if s is None:
            return self._real.time()
        s.touch('clock', write=False)
        return 1.7e9 + s.clock

    monotonic = time
    perf_counter = time

    def sleep(self, x):
        s = current_sched()
        if s is None:
            return self._real.sleep(x)
        s.touch('clock')
        s.clock += x + s.sleep_extra

    def __getattr__(self, name):
        return getattr(self._real, name)


# ---------------------------------------------------------------------------------------
# which lines of the traced file touch state shared between threads (from its AST)

SYNC_NAMES = {'Thread', 'Lock', 'RLock', 'Popen', 'Client', 'time', 'threading', 'Event', 'Condition',
              'Semaphore', 'Timer'}
SYNC_METHODS = {'start', 'join', 'acquire', 'release', 'sleep', 'send_bytes', 'recv_bytes', 'send', 'recv',
                'close', 'poll', 'wait', 'kill', 'terminate', 'is_alive', 'locked'}
ATTR_FUNCS = {'hasattr': 'r', 'getattr': 'r', 'setattr': 'w', 'delattr': 'w'}


def classify_lines(source):
    """Returns (visible_lines, line_access, info).

    Shared attributes of ``self`` = every attribute stored or deleted (directly or through
    setattr/delattr) in a method other than ``__init__``, plus attributes initialised from a
    synchronisation constructor.  A line is *visible* when an expression starting on it
    (or the statement it belongs to) reads or writes a shared attribute, names a
    synchronisation class / the clock / the process-and-connection constructors, calls a
    synchronisation or connection method, or is a ``with`` header.  line_access maps every
    line to the attribute names it reads / writes (all attributes of self, shared or not,
    plus pseudo variables) for the dependency relation of the sleep-set reduction."""
    tree = ast.parse(source)
    shared = set()
    parents = {}
    for node in ast.walk(tree):
        for ch in ast.iter_child_nodes(node):
            parents[ch] = node
    funcs = [n for n in ast.walk(tree) if isinstance(n, (ast.FunctionDef, ast.AsyncFunctionDef))]
    for fn in funcs:
        for node in ast.walk(fn):
            if isinstance(node, ast.Attribute) and isinstance(node.value, ast.Name) and node.value.id == 'self':
                if isinstance(node.ctx, (ast.Store, ast.Del)) and fn.name != '__init__':
                    shared.add(node.attr)
            if isinstance(node, ast.Call) and isinstance(node.func, ast.Name) and node.func.id in ('setattr', 'delattr'):
                if len(node.args) >= 2 and isinstance(node.args[1], ast.Constant) and isinstance(node.args[1].value, str):
                    if fn.name != '__init__':
                        shared.add(node.args[1].value)
            if isinstance(node, ast.Assign) and isinstance(node.value, ast.Call):
                f = node.value.func
                fname = f.id if isinstance(f, ast.Name) else (f.attr if isinstance(f, ast.Attribute) else None)
                if fname in SYNC_NAMES:
                    for tg in node.targets:
                        if isinstance(tg, ast.Attribute) and isinstance(tg.value, ast.Name) and tg.value.id == 'self':
                            shared.add(tg.attr)

    def stmt_of(node):
        while node is not None and not isinstance(node, ast.stmt):
            node = parents.get(node)
        return node

    visible = set()
    access = {}
    call_acc = {}     # accesses made through hasattr/getattr/setattr/delattr calls, per line

    def acc(line, var, write):
        r, w = access.setdefault(line, (set(), set()))
        (w if write else r).add(var)

    def mark(node, var=None, write=False, vis=True):
        st = stmt_of(node)
        lines = {node.lineno}
        if st is not None:
            lines.add(st.lineno)
        for ln in lines:
            if vis:
                visible.add(ln)
            if var is not None:
                acc(ln, var, write)

    for fn in funcs:
        for node in ast.walk(fn):
            if isinstance(node, ast.Attribute) and isinstance(node.value, ast.Name) and node.value.id == 'self':
                w = isinstance(node.ctx, (ast.Store, ast.Del))
                mark(node, ('attr', node.attr), w, vis=node.attr in shared)
            elif isinstance(node, ast.Call) and isinstance(node.func, ast.Name) and node.func.id in ATTR_FUNCS:
                if len(node.args) >= 2 and isinstance(node.args[1], ast.Constant) and isinstance(node.args[1].value, str):
                    a = node.args[1].value
                    mark(node, ('attr', a), ATTR_FUNCS[node.func.id] == 'w', vis=a in shared)
                    var, wr = ('attr', a), ATTR_FUNCS[node.func.id] == 'w'
                else:
                    mark(node, ('attr', '*'), True)
                    var, wr = ('attr', '*'), True
                st = stmt_of(node)
                for ln in {node.lineno, st.lineno if st is not None else node.lineno}:
                    r, w = call_acc.setdefault(ln, (set(), set()))
                    (w if wr else r).add(var)
            elif isinstance(node, ast.Name) and node.id in SYNC_NAMES and isinstance(node.ctx, ast.Load):
                mark(node)
            elif (isinstance(node, ast.Call) and isinstance(node.func, ast.Attribute) and node.func.attr in SYNC_METHODS
                  and ast.unparse(node.func.value) not in ('os.path', 'os', 'str', "''")):
                mark(node, ('sync',), True)
            elif isinstance(node, (ast.With, ast.AsyncWith)):
                visible.add(node.lineno)
                for it in node.items:
                    visible.add(it.context_expr.lineno)
    line_access = {}
    for ln, (r, w) in access.items():
        if ('attr', '*') in w:
            w = set(w) | {('attr', a) for a in shared}
        line_access[ln] = (frozenset(r), frozenset(w))
    call_access = {}
    for ln, (r, w) in call_acc.items():
        if ('attr', '*') in w:
            w = set(w) | {('attr', a) for a in shared}
        call_access[ln] = (frozenset(r), frozenset(w))
    info = {'shared_attributes': sorted(shared), 'visible_lines': sorted(visible), 'call_access': call_access}
    return visible, line_access, info


ATTR_OPS = ('LOAD_ATTR', 'STORE_ATTR', 'DELETE_ATTR', 'LOAD_METHOD', 'LOAD_SUPER_ATTR')
CALL_OPS = ('CALL', 'CALL_FUNCTION_EX', 'CALL_KW', 'CALL_FUNCTION', 'CALL_METHOD', 'CALL_FUNCTION_KW',
            'BEFORE_WITH', 'BEFORE_ASYNC_WITH', 'WITH_EXCEPT_START')


def classify_instructions(code, shared, visible_lines, call_access=None):
    """Returns (visible offsets, {offset: (reads, writes)}).

    Visible = instructions of `code` that may touch state shared between threads: attribute
    loads/stores/deletes of a shared attribute name (any receiver), and every call
    instruction (incl. entering/leaving a `with`) on a line that classify_lines found
    visible.  Everything else (stack shuffling, constants, jumps, locals) is thread-local.
    Static access sets: attribute instructions access ('attr', name); call instructions get the
    accesses that the line makes through hasattr/getattr/setattr/delattr (what the callee
    itself does to locks, threads, the clock and the fakes is recorded dynamically)."""
    import dis
    call_access = call_access or {}
    out = set()
    iacc = {}
    line = None
    empty = frozenset()
    for ins in dis.get_instructions(code):
        if ins.starts_line is not None and not isinstance(ins.starts_line, bool):
            line = ins.starts_line
        pos = getattr(ins, 'positions', None)
        ln = pos.lineno if pos is not None and pos.lineno is not None else line
        if ins.opname in ATTR_OPS:
            var = frozenset([('attr', ins.argval)])
            iacc[ins.offset] = (empty, var) if ins.opname in ('STORE_ATTR', 'DELETE_ATTR') else (var, empty)
            if ins.argval in shared:
                out.add(ins.offset)
        elif ins.opname in CALL_OPS:
            if ln in call_access:
                iacc[ins.offset] = call_access[ln]
            if ln in visible_lines:
                out.add(ins.offset)
    return out, iacc


UNIVERSAL = '*unknown*'


def dependent(a, b):
    """a, b: (reads, writes) access sets of two steps."""
    ra, wa = a
    rb, wb = b
    if UNIVERSAL in wa or UNIVERSAL in wb:
        return True
    if wa and (not wa.isdisjoint(wb) or not wa.isdisjoint(rb)):
        return True
    if wb and not wb.isdisjoint(ra):
        return True
    return False


# ---------------------------------------------------------------------------------------
# choosers

class FixedChooser(object):
    """Replays a recorded schedule (tid per step); after its end: keep running the current
    thread, else the lowest tid."""

    def __init__(self, tids):
        self.tids = list(tids)
        self.diverged = None

    def choose(self, sched, enabled, cur_idx):
        k = sched.steps
        if k < len(self.tids):
            if self.tids[k] in enabled:
                return enabled.index(self.tids[k])
            if self.diverged is None:
                self.diverged = k
        return cur_idx if cur_idx >= 0 else 0


class RandomChooser(object):
    """Random walk: stay on the running thread with probability `stay`, else uniform."""

    def __init__(self, rng, stay=0.5):
        self.rng = rng
        self.stay = stay

    def choose(self, sched, enabled, cur_idx):
        if len(enabled) == 1:
            return 0
        if cur_idx >= 0 and self.rng.random() < self.stay:
            return cur_idx
        return self.rng.randrange(len(enabled))


class PctChooser(object):
    """PCT (Burckhardt et al.): random thread priorities, depth-1 priority change points at
    random step indices; always run the enabled thread of highest priority."""

    def __init__(self, rng, depth, steps_estimate):
        self.rng = rng
        self.prio = {}
        n = max(2, steps_estimate)
        self.change = sorted(rng.randrange(1, n) for _ in range(max(0, depth - 1)))
        self.low = 0

    def choose(self, sched, enabled, cur_idx):
        for tid in enabled:
            if tid not in self.prio:
                self.prio[tid] = 1.0 + self.rng.random()
        best = max(enabled, key=lambda t: self.prio[t])
        while self.change and self.change[0] <= sched.steps:
            self.change.pop(0)
            self.low -= 1
            self.prio[best] = self.low
            best = max(enabled, key=lambda t: self.prio[t])
        return enabled.index(best)


class _DfsChooser(object):
    def __init__(self, prefix):
        self.prefix = prefix          # list of (choice index, n enabled)
        self.log = []                 # (choice, n, cur_idx, preemptions before)

    def choose(self, sched, enabled, cur_idx):
        n = len(enabled)
        if n == 1:
            return 0
        k = len(self.log)
        if k < len(self.prefix):
            c, n0 = self.prefix[k]
            if n0 != n:
                raise Nondeterminism('decision %d: %d enabled, logged %d' % (k, n, n0))
        else:
            c = cur_idx if cur_idx >= 0 else 0
        self.log.append((c, n, cur_idx, sched.preemptions))
        return c


class Explorer(object):
    """Depth-first enumeration of schedules by re-execution.

    run_one(chooser) must build a fresh world + Scheduler with that chooser, run it and
    return the Scheduler.  mode 'plain': every choice at every decision point (optionally
    only those within `bound` preemptions).  mode 'sleep': sleep-set partial-order reduction
    (one complete schedule per Mazurkiewicz trace w.r.t. the recorded access sets; no bound)."""

    def __init__(self, run_one, bound=None, mode='plain', max_schedules=None, root=None, limit_depth=None):
        """root (plain mode): list of (choice, n enabled) - explore only schedules that extend
        this decision prefix.  limit_depth (plain mode): branch only in the first limit_depth
        decisions, later ones take the default: the runs' decision prefixes of that length
        (`last_root`) partition the whole tree into independent sub-trees."""
        self.run_one = run_one
        self.root = [tuple(x) for x in (root or [])]
        self.limit_depth = limit_depth
        self.last_root = None
        self.bound = bound
        self.mode = mode
        self.max_schedules = max_schedules
        self.schedules = 0
        self.pruned = 0
        self.exhausted = False
        self.max_preemptions = 0

    def __iter__(self):
        return self._plain() if self.mode == 'plain' else self._sleep()

    def _plain(self):
        prefix = list(self.root)
        while True:
            ch = _DfsChooser(prefix)
            s = self.run_one(ch)
            self.schedules += 1
            self.max_preemptions = max(self.max_preemptions, s.preemptions)
            log = ch.log
            hi = len(log) if self.limit_depth is None else min(len(log), self.limit_depth)
            self.last_root = [(e[0], e[1]) for e in log[:hi]]
            yield s
            nxt = None
            for i in range(hi - 1, len(self.root) - 1, -1):
                c, n, cur, pre = log[i]
                default = cur if cur >= 0 else 0
                order = [default] + [j for j in range(n) if j != default]
                for j in order[order.index(c) + 1:]:
                    cost = 1 if (cur >= 0 and j != cur) else 0
                    if self.bound is None or pre + cost <= self.bound:
                        nxt = [(e[0], e[1]) for e in log[:i]] + [(j, n)]
                        break
                if nxt is not None:
                    break
            if nxt is None:
                self.exhausted = True
                return
            if self.max_schedules is not None and self.schedules >= self.max_schedules:
                return
            prefix = nxt

    def _sleep(self):
        stack = []        # nodes: dict(enabled, cur, sleep{tid:acc}, done{tid:acc}, chosen)

        class Ch(object):
            def __init__(self):
                self.depth = 0

            def choose(self, sched, enabled, cur_idx):
                d = self.depth
                if d > 0:
                    # access set of the step just finished belongs to node d-1
                    stack[d - 1]['acc'] = sched.step_access[d - 1]
                if d < len(stack):
                    node = stack[d]
                    if node['enabled'] != enabled:
                        raise Nondeterminism('step %d: enabled %r, logged %r' % (d, enabled, node['enabled']))
                else:
                    sleep = {}
                    if d > 0:
                        par = stack[d - 1]
                        a = par['acc']
                        for q, qa in list(par['sleep'].items()) + list(par['done'].items()):
                            if q != par['chosen'] and not dependent(qa, a):
                                sleep[q] = qa
                    cand = [t for t in enabled if t not in sleep]
                    if not cand:
                        return None
                    cur = enabled[cur_idx] if cur_idx >= 0 else None
                    chosen = cur if cur in cand else cand[0]
                    node = {'enabled': list(enabled), 'sleep': sleep, 'done': {}, 'chosen': chosen, 'acc': None}
                    stack.append(node)
                self.depth += 1
                return enabled.index(node['chosen'])

        while True:
            ch = Ch()
            s = self.run_one(ch)
            if s.status == 'pruned':
                self.pruned += 1
            else:
                self.schedules += 1
                self.max_preemptions = max(self.max_preemptions, s.preemptions)
                # last step's access
                if stack and len(s.step_access) >= len(stack):
                    stack[-1]['acc'] = s.step_access[len(stack) - 1]
                yield s
            # fill in the access of the deepest executed node if known
            for i, node in enumerate(stack):
                if node['acc'] is None and i < len(s.step_access):
                    node['acc'] = s.step_access[i]
            # backtrack
            while stack:
                node = stack[-1]
                if node['acc'] is not None:
                    node['done'][node['chosen']] = node['acc']
                else:
                    # the step never ran (watchdog / abort): treat as explored with unknown
                    # (= universal) access so that nothing is put to sleep because of it
                    node['done'][node['chosen']] = (frozenset(), frozenset([UNIVERSAL]))
                cand = [t for t in node['enabled'] if t not in node['sleep'] and t not in node['done']]
                if cand:
                    node['chosen'] = cand[0]
                    node['acc'] = None
                    break
                stack.pop()
            if not stack:
                self.exhausted = True
                return
            if self.max_schedules is not None and self.schedules + self.pruned >= self.max_schedules:
                return
