"""Adapters around the real supp: canonical views of what it associates with a read.

supp's binding objects are mapped to binding-site keys (line, col, identifier) *without*
using positions supp found by text search: assignment-like bindings and parameters carry the
position of their AST node; classes and imports are stamped, at creation, with the statement
node being visited (wrappers installed from here around extract_visitor.visit and
Flow.add_name); functions carry their node.
"""
import ast

from supp import nast, scope as sscope, name as sname, util as sutil
from supp.util import Source, np

_STACK = []
_STAR = {}
COUNTS = {'add_name': 0, 'visit': 0, 'stamped': 0}
_installed = False


def install():
    global _installed
    if _installed:
        return
    _installed = True
    orig_visit = nast.extract_visitor.visit
    orig_add = sscope.Flow.add_name

    def visit(self, node):
        COUNTS['visit'] += 1
        t = type(node)
        if t in (ast.Import, ast.ImportFrom, ast.ClassDef):
            _STACK.append(node)
            try:
                r = orig_visit(self, node)
                if t is ast.ImportFrom and self.top._star_imports:
                    loc, declared_at, module, flow = self.top._star_imports[-1]
                    if any(a.name == '*' for a in node.names):
                        _STAR[(loc, declared_at, module)] = node
                return r
            finally:
                _STACK.pop()
        return orig_visit(self, node)

    def add_name(self, name, *args, **kwargs):
        COUNTS['add_name'] += 1
        if isinstance(name, (sname.ImportedName, sscope.ClassScope)):
            if _STACK:
                name._vf_stmt = _STACK[-1]
                COUNTS['stamped'] += 1
            elif getattr(name, 'is_star', False):
                st = _STAR.get((name.location, name.declared_at, name.module))
                if st is not None:
                    name._vf_stmt = st
                    COUNTS['stamped'] += 1
        return orig_add(self, name, *args, **kwargs)

    nast.extract_visitor.visit = visit
    sscope.Flow.add_name = add_name


def reset():
    del _STACK[:]
    _STAR.clear()


def site_key(n):
    """binding-site key of a supp binding object, or 'undefined' / 'builtin' / None (unmappable)."""
    if isinstance(n, sname.UndefinedName):
        return 'undefined'
    if isinstance(n, sname.RuntimeName):
        return 'builtin'
    if isinstance(n, sscope.FuncScope):
        if isinstance(n.node, ast.Lambda):
            return None
        return (n.node.lineno, n.node.col_offset, n.name)
    if isinstance(n, (sscope.ClassScope, sname.ImportedName)):
        st = getattr(n, '_vf_stmt', None)
        if st is None:
            return None
        if getattr(n, 'is_star', False):
            return (st.lineno, st.col_offset, '*')
        return (st.lineno, st.col_offset, n.name)
    if isinstance(n, (sname.AssignedName, sname.ArgumentName)):
        return (n.declared_at[0], n.declared_at[1], n.name)
    return None


def alternatives(nm):
    """supp's answer for one identifier -> list of binding objects (incl. UndefinedName markers)."""
    if nm is None:
        return None
    if isinstance(nm, sname.MultiName):
        return list(nm.alt_names)
    return [nm]


class Analysis(object):
    """One parsed text; every query runs on a freshly extracted scope unless told otherwise."""

    def __init__(self, text, filename, project):
        install()
        self.text = text
        self.filename = filename
        self.project = project
        self.source = Source(text, filename)
        self.tree = self.source.tree
        self.reads = {}
        for n in ast.walk(self.tree):
            if isinstance(n, ast.Name) and isinstance(n.ctx, ast.Load):
                self.reads[(n.lineno, n.col_offset)] = n

    def fresh_scope(self):
        reset()
        return nast.extract_scope(self.source, self.project)

    def query(self, pos, scope=None):
        """-> (status, [binding objects]) for the read at pos on a fresh scope.
        status: 'unvisited' (no .flow), 'missing' (no entry), 'ok'."""
        node = self.reads[pos]
        if scope is None:
            if hasattr(node, 'flow'):
                del node.flow
            self.fresh_scope()
        if not hasattr(node, 'flow'):
            return 'unvisited', []
        nm = node.flow.names_at(np(node)).get(node.id)
        if nm is None:
            return 'missing', []
        return 'ok', alternatives(nm)
