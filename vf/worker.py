"""Worker subprocess: reads {"fn": "module:function", "arg": ...} lines, writes one JSON line per call."""
import importlib
import json
import os
import sys
import traceback


def main():
    out = os.fdopen(os.dup(1), 'w')
    # anything the code under test prints goes to stderr, the protocol keeps fd 1
    os.dup2(2, 1)
    sys.stdout = sys.stderr
    import logging
    logging.disable(logging.CRITICAL)
    from vf import core
    core.assert_repo()
    cache = {}
    for line in sys.stdin:
        msg = json.loads(line)
        try:
            fn = cache.get(msg['fn'])
            if fn is None:
                mod, _, name = msg['fn'].partition(':')
                fn = cache[msg['fn']] = getattr(importlib.import_module(mod), name)
            res = fn(msg['arg'])
        except BaseException:
            res = {'_error': traceback.format_exc()[-4000:]}
        out.write(json.dumps(res, default=str) + '\n')
        out.flush()


if __name__ == '__main__':
    main()
