from vf_rt import v, q, it, cm, m, d, dd, kb, km, call, ex, et
def w(*s, k: y=v((y := v())), **kw):
    return v()
