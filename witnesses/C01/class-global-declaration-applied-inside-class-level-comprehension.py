from vf_rt import v, q, it, cm, m, d, dd, kb, km, call, ex, et
def g():
    w = v()
    class L:
        global w
        z = {v(w) for ci in it()}
    return L
call(g)
