from vf_rt import v, q, it, cm, m, d, dd, kb, km, call, ex, et
class K:
    [call(lambda: v(ci)) for ci in it()]
