from vf_rt import v, q, it, cm, m, d, dd, kb, km, call, ex
y = v()
y: y = v()
v(y)
