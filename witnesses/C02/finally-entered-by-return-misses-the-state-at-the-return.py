from vf_rt import v, q, it, cm, m, d, dd, kb, km, call, ex, et
def f(p):
    x = v()
    try:
        m(KeyError)
        if q(p):
            return v(x)
        x = v()
        m(KeyError)
    except KeyError:
        x = v()
    finally:
        v(x)
    return v(x)
