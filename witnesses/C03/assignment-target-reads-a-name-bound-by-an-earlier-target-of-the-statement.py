from vf_rt import v, q, it, cm, m, d, dd, kb, km, call, ex, et
if q():
    j = v()
j = v()[j] = v()
v(j)
