from vf_rt import v, q, it, cm, m, d, dd, kb, km, call, ex
def f(p):
    x = v()
    if q(p):
        x = v()
        return v(x)
    v(x)
def g(p):
    if q(p):
        return v()
    else:
        y = v()
    v(y)
