from vf_rt import v, q, it, cm, m, d, dd, kb, km, call, ex
x = v()
try:
    m(KeyError)
    x = v()
    y = v()
except KeyError:
    v(x)
try:
    z = v()
    m(KeyError)
except KeyError:
    v(z)
