# C05 witness (analysed statically, never executed): a class body's global declaration does not reach the
# comprehensions nested in that body; CPython resolves x in the element expressions to f's x.
x = 0


def f(ys):
    x = 1

    class C:
        global x
        a = [x for y in ys]
        b = {y: x for y in ys}
        c = list(x for y in ys)
    return C
