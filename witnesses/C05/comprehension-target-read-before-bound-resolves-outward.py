# C05 witness (analysed statically, never executed): inside a comprehension supp binds the iteration variables
# positionally, CPython makes them local to the whole comprehension.  The read of c in the second generator's
# iterable is the comprehension's own c for the compiler (it would be unbound at run time); supp offers the
# module's c.  Same for a condition that reads the variable of a later generator.
c = 0
d = 0


def f(xs):
    return [c for b in xs for c in c]


def g(xs):
    return [b for b in xs if d for d in b]
