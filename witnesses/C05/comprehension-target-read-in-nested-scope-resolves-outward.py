# C05 witness (analysed statically, never executed): a lambda nested in a comprehension reads the
# comprehension's iteration variable; the compiler resolves it to that variable only.  supp resolves nested
# scopes against the end of the enclosing scope, where "before the comprehension" (outer e) and the
# comprehension's regions are joined, so the outer binding of the same identifier is offered as well.
e = 0


def f(xs):
    return [lambda: e for e in xs]


def outer(k):
    def g(xs):
        return {x: (lambda: k) for x in xs for k in x}
    return g
