# C05 witness (analysed statically, never executed): comprehension iteration variables are filed under the
# enclosing scope's locals.
n = 0
k = 0


def after(y):
    # (i) visible after the comprehension: CPython reads the module's n here
    [n for n in y]
    return n


def nested(y):
    # (i) visible to a nested scope: CPython reads the module's k in inner()
    [k for k in y]

    def inner():
        return k
    return inner


def outer():
    m = 1

    def middle(y):
        # (iii) free-variable / nonlocal owner lookup stops at middle(), which has m only as an iteration variable
        [m for m in y]
        print(m)            # CPython: outer()'s m

        def inner():
            nonlocal m
            m = 2
            return m
        return inner
    return middle
