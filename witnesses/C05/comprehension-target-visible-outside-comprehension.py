# C05 witness (analysed statically, never executed): the region after a comprehension joins "before the
# comprehension" with the comprehension's own regions, so the iteration variable stays visible after/outside the
# comprehension as a possibly-bound alternative owned by the enclosing scope.  (Since the comprehension variable is
# no longer a local of the enclosing scope it does not mask outer names and does not stop nonlocal/free-variable
# owner lookup any more; only this visibility remains.)
n = 0
k = 0


def after(y):
    # visible after the comprehension: CPython reads the module's n here
    [n for n in y]
    return n


def nested(y):
    # visible to a nested scope: CPython reads the module's k in inner()
    [k for k in y]

    def inner():
        return k
    return inner


def outer():
    m = 1

    def middle(y):
        [m for m in y]
        return m            # CPython: outer()'s m (a closure variable of middle)
    return middle
